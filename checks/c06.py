"""C06 - every dataset in a collection carries exactly one subset per subset group.

Mode H: explicit-state BFS over histories of collection / group / command-stack / session-restore
operations on a real DataCollection; invariants I1-I4 (mc/worlds.py) in every reached state."""
import time

from mc import core, hist
from mc.worlds import CollectionWorld, state_fp, mode_by_name

PROP = 'C06'

LABELS = ['alpha', 'beta']
COLORS = ['#111111', '#222222']


class World(CollectionWorld):
    def __init__(self, **kw):
        CollectionWorld.__init__(self, **kw)
        self.cmd_log = []      # descriptors of commands on the undo stack
        self.redo_log = []
        self.extra_data = 0


class Scenario(object):

    def __init__(self, max_groups=2, n_states=2, stack=True, roundtrip=True, merge=True, edits=True,
                 names=('d0', 'd1', 'd2'), relabel=True):
        self.relabel = relabel
        self.max_groups = max_groups
        self.n_states = n_states
        self.stack = stack
        self.roundtrip = roundtrip
        self.merge = merge
        self.edits = edits
        self.names = names

    def new_world(self):
        return World()

    def opname(self, op):
        return ':'.join(str(x) for x in op)

    def enabled(self, w):
        ops = []
        ng = len(w.dc.subset_groups)
        for n in self.names:
            if w.in_dc(n):
                ops.append(['remove', n])
                if self.stack:
                    ops.append(['cmd_remove', n])
            else:
                ops.append(['append', n])
                if self.stack:
                    ops.append(['cmd_add', n])
        if not w.in_dc('d1') and not w.in_dc('d2'):
            ops.append(['extend', 'd1', 'd2'])
        if len(w.dc) > 0:
            ops.append(['clear'])
        if self.merge and not w.merged and w.in_dc('d0') and w.in_dc('d1'):
            ops.append(['merge'])
        if ng < self.max_groups:
            for k in range(self.n_states):
                ops.append(['new_group', k])
        for j in range(ng):
            ops.append(['remove_group', j])
            if self.relabel:
                ops.append(['set_label', j, LABELS[0]])     # same label for every group: labels are not unique
            if self.edits:
                ops.append(['set_state', j, (j + 1) % self.n_states])
                ops.append(['set_label', j, LABELS[1]])
                ops.append(['set_style', j, COLORS[j % 2]])
        if self.stack:
            if ng < self.max_groups:
                ops.append(['cmd_apply', 0, 'NewMode'])
            ops.append(['cmd_apply', 1, 'ReplaceMode'])
            if w.stack.can_undo_redo()[0]:
                ops.append(['undo'])
            if w.stack.can_undo_redo()[1]:
                ops.append(['redo'])
        if self.roundtrip and len(w.dc) > 0:
            ops.append(['roundtrip'])
        return ops

    def apply(self, w, op):
        from glue.core import command as C
        k = op[0]
        dc = w.dc
        try:
            if k == 'append':
                dc.append(w.pool[op[1]])
            elif k == 'remove':
                dc.remove(w.pool[op[1]])
            elif k == 'extend':
                dc.extend([w.pool[op[1]], w.pool[op[2]]])
            elif k == 'clear':
                dc.clear()
            elif k == 'merge':
                m = dc.merge(w.pool['d0'], w.pool['d1'], label='merged')
                w.pool['m'] = m
                w.merged = True
            elif k == 'new_group':
                dc.new_subset_group(subset_state=w.make_state(op[1]))
            elif k == 'remove_group':
                g = dc.subset_groups[op[1]]
                dc.remove_subset_group(g)
                w.removed_groups.append(g)
            elif k == 'set_state':
                dc.subset_groups[op[1]].subset_state = w.make_state(op[2])
            elif k == 'set_label':
                dc.subset_groups[op[1]].label = op[2]
            elif k == 'set_style':
                dc.subset_groups[op[1]].style.color = op[2]
            elif k == 'cmd_add':
                w.stack.do(C.AddData(data=w.pool[op[1]]))
                self._did(w, op)
            elif k == 'cmd_remove':
                w.stack.do(C.RemoveData(data=w.pool[op[1]]))
                self._did(w, op)
            elif k == 'cmd_apply':
                before = list(dc.subset_groups)
                w.stack.do(C.ApplySubsetState(data_collection=dc, subset_state=w.make_state(op[1]),
                                              override_mode=mode_by_name(op[2])))
                self._did(w, op)
            elif k == 'undo':
                before = list(dc.subset_groups)
                w.stack.undo()
                w.redo_log.append(w.cmd_log.pop())
                self._note_removed(w, before)
            elif k == 'redo':
                w.stack.redo()
                w.cmd_log.append(w.redo_log.pop())
            elif k == 'roundtrip':
                self._roundtrip(w)
            else:
                raise core.EngineError('unknown op %r' % (op,))
        except core.EngineError:
            raise
        except Exception as e:
            w.violations.append(('unexpected-exception', '%s: %s' % (type(e).__name__, e),
                                 'operation %s succeeds' % self.opname(op)))

    def _did(self, w, op):
        w.cmd_log.append([list(op), core.short_hash(w.snapshot())])
        w.redo_log = []

    def _note_removed(self, w, before):
        now = list(w.dc.subset_groups)
        for g in before:
            if not any(g is h for h in now):
                w.removed_groups.append(g)

    def _roundtrip(self, w):
        """Save the collection, restore it, and continue with the restored world."""
        from glue.core.state import GlueSerializer, GlueUnSerializer
        from glue.core.session import Session
        gs = GlueSerializer(w.dc, include_data=True)
        text = gs.dumps()
        dc2 = GlueUnSerializer.loads(text).object('__main__')
        old_names = w.names_in_dc()
        w.dc = dc2
        for n, d in zip(old_names, dc2):
            w.pool[n] = d
        # datasets that were outside the collection belong to the old session (and its hub); the restored
        # session gets new ones, as a user loading more data into it would
        for n in ('d0', 'd1', 'd2'):
            if n not in old_names:
                w.pool[n] = w.fresh(n)
        w.session = Session(data_collection=dc2)
        w.stack = w.session.command_stack
        w.mode = w.session.edit_subset_mode
        w.cmd_log, w.redo_log = [], []
        w.removed_groups = []

    def check(self, w):
        return w.membership_violations()

    def canon(self, w):
        c = w.canon()
        c['stack'] = w.cmd_log
        c['redo'] = w.redo_log
        return c


def tiers(tier):
    if tier == 'quick':
        return [('core', Scenario(max_groups=2, n_states=2, stack=False, roundtrip=False, edits=False), 7),
                ('full', Scenario(max_groups=2, n_states=1, names=('d0', 'd1')), 5)]
    return [('core', Scenario(max_groups=2, n_states=2, stack=False, roundtrip=False), 7),
            ('full', Scenario(max_groups=2, n_states=2), 5)]


def run(tier):
    t0 = time.time()
    total = core.Result()
    cov = dict(states=0, transitions=0, traces_validated_against_impl=0, runs=[])
    for label, scn, depth in tiers(tier):
        ex = hist.Explorer(scn, depth, PROP, label=label)
        total.merge(ex.run())
        c = ex.coverage()
        for k in ('states', 'transitions', 'traces_validated_against_impl'):
            cov[k] += c[k]
        c['scenario'] = label
        cov['runs'].append(c)
    return core.finish(
        PROP, tier, total, 'model_checking',
        'distinct = canonical real states (collection membership, per-dataset subset->group map incl. removed '
        'datasets, per-group fields, stacks); every transition executes the real DataCollection/SubsetGroup/'
        'CommandStack/serializer code', t0, coverage=cov, confirm=confirm,
        assumptions=['pool of 3 datasets (2 shapes), <=2 groups, 2 selection states',
                     'subsets are created only through subset groups (documented convention)',
                     'a removed dataset may keep private leftovers as long as no live group lists them and '
                     're-adding it yields exactly one subset per group'])


def _scn_for(label):
    for tier in ('thorough', 'quick'):
        for l, scn, d in tiers(tier):
            if l == label:
                return scn
    return Scenario()


def confirm(v):
    scn = _scn_for(v['case'].get('scenario'))
    viol = hist.replay(scn, v['case'], verbose=False)
    return any(x[0] == v['clause'] for x in viol)


def replay(doc):
    scn = _scn_for(doc['case'].get('scenario'))
    viol = hist.replay(scn, doc['case'])
    for x in viol:
        print('  violated:', x)
    return any(x[0] == doc['clause'] for x in viol)
