"""C15 - world coordinates, their links and inverses agree with the coordinate object (Mode I).

Space: EVERY zero/non-zero pattern of the linear part of an affine transformation that admits an
invertible matrix (1-d: 1, 2-d: 7, 3-d: 247 patterns) with fixed exactly representable coefficients,
plus IdentityCoordinates (1..3-d), one shape per dimensionality, every world/pixel axis and every
view of the view alphabet.

Clauses
  inverse       coords.world_to_pixel_values(coords.pixel_to_world_values(p)) ~ p          (coordinate object)
  world-values  data[world cid, view] == pixel_to_world_values(full pixel grid)[axis][view]
  p2w-link      automatically created pixel->world link: link.compute(data, view) == direct[axis][view]
  w2p-link      automatically created world->pixel link evaluated on a helper dataset that stores
                given world values under the same ComponentIDs: == world_to_pixel_values(values)[axis][view]
                (inputs: the exact world grid of the dataset, and a lattice of unrelated world values)
  roundtrip     world->pixel link evaluated on the dataset itself (inputs are the dataset's own world
                attributes) ~ the pixel grid[view]

The oracle never uses glue's helpers: the transformation is called directly on full, non-broadcast grids.
"""
import time
import itertools

import numpy as np

from mc import core

PROP = 'C15'

# --------------------------------------------------------------------------- palettes
# exactly representable (dyadic) coefficients: pixel->world arithmetic is exact, every pattern that has a
# perfect matching gives |det| >= 0.09 and cond <= 240 (validated in _validate_palettes()).
PALETTES = [
    dict(C=[[1., 0.5, -2.], [3., -1.5, 0.25], [-0.75, 2., 1.25]], off=[0.5, -1.25, 2.]),
    dict(C=[[2., -0.5, 1.5], [0.75, 1., -2.5], [-1.25, 3., 0.5]], off=[-2., 0.75, 1.5]),
    dict(C=[[-1.5, 2., 0.75], [0.5, -3., 1.], [2.5, 0.25, -2.]], off=[1.25, 3., -0.5]),
]
# a palette of TINY magnitudes (palette 0 times 2**-33, about 1.2e-10: still exactly representable) - e.g. a
# wavelength axis in metres; anything that decides "no dependence" with an absolute tolerance breaks here
TINY = 2.0 ** -33
PALETTES.append(dict(C=[[c * TINY for c in row] for row in PALETTES[0]['C']],
                     off=[o * TINY for o in PALETTES[0]['off']], scale=TINY))
TINY_PAL = len(PALETTES) - 1
# a palette of INTEGER coefficients handed over as an int64 matrix (what np.array([[2, 0, 10], ...]) gives): every
# pattern has |det| >= 1.5, so no inverse is an integer matrix
PALETTES.append(dict(C=[[-2, -3, 3], [3, 2, 3], [-4, 3, 2]], off=[10, -3, 7], dtype='int64'))
INT_PAL = len(PALETTES) - 1
N_SEED_PALETTES = 3
SHAPES = {1: (3,), 2: (3, 4), 3: (2, 3, 4)}
SHAPES_T = {1: (4,), 2: (4, 3), 3: (3, 2, 4)}      # second shape set, thorough only
ATOL_FWD = 1e-9
ATOL_INV = 1e-8


def has_matching(p):
    n = len(p)
    return any(all(p[i][s[i]] for i in range(n)) for s in itertools.permutations(range(n)))


def patterns(n):
    out = []
    for bits in itertools.product([0, 1], repeat=n * n):
        p = [list(bits[i * n:(i + 1) * n]) for i in range(n)]
        if has_matching(p):
            out.append(p)
    return out


def affine_matrix(pattern, pal):
    n = len(pattern)
    P = PALETTES[pal]
    m = np.zeros((n + 1, n + 1))
    m[:n, :n] = np.array(pattern, dtype=float) * np.array(P['C'])[:n, :n]
    m[:n, n] = np.array(P['off'])[:n]
    m[n, n] = 1
    if P.get('dtype'):
        m = m.astype(P['dtype'])
    return m


def _validate_palettes():
    for ip in range(len(PALETTES)):
        for n in (1, 2, 3):
            for p in patterns(n):
                m = affine_matrix(p, ip)[:n, :n].astype(float) / PALETTES[ip].get('scale', 1.0)
                if abs(np.linalg.det(m)) < 0.05 or np.linalg.cond(m) > 500:
                    raise core.EngineError('C15 palette %d unusable for pattern %r' % (ip, p))


# --------------------------------------------------------------------------- coupling classes
def closure(a):
    """Identify world axis i with pixel axis i; axes are coupled if one depends on the other in either
    direction, transitively.  Returns the boolean reachability matrix."""
    n = len(a)
    c = np.array(a, dtype=bool) | np.array(a, dtype=bool).T | np.identity(n, dtype=bool)
    for _ in range(n):
        c = (c.astype(int).dot(c.astype(int))) > 0
    return c


def classify(pattern):
    """Coupling-pattern class (invariant under reversing both axis orders).

    independent     : every world axis depends on its own pixel axis only
    blocks          : groups of mutually and directly coupled axes (pattern == its own closure)
    offdiag:<kind>  : some world axis does NOT depend on the pixel axis of the same number
                      (kind: permuted = pure axis permutation, sym, other)
    diag-open:<kind>: every world axis depends on its own pixel axis, but coupled axes are not all
                      directly coupled in both directions (kind: triangular, sym, other)
    """
    a = np.array(pattern, dtype=bool)
    n = len(a)
    eye = np.identity(n, dtype=bool)
    if (a == eye).all():
        return 'independent'
    if (a == closure(a)).all():
        return 'blocks'
    sym = bool((a == a.T).all())
    if not a.diagonal().all():
        if (a.sum(axis=0) == 1).all() and (a.sum(axis=1) == 1).all():
            return 'offdiag:permuted'
        return 'offdiag:sym' if sym else 'offdiag:other'
    off = a & ~eye
    acyclic = not np.linalg.matrix_power(off.astype(int), n).any()
    if acyclic:
        return 'diag-open:triangular'
    return 'diag-open:sym' if sym else 'diag-open:other'


# --------------------------------------------------------------------------- views
# The view domain is the one C04 documents as supported: None, Ellipsis, tuples of positive-step slices
# (possibly shorter than ndim), mixed integers and slices, tuples of integer index arrays, boolean masks.
# A single slice / integer that is not wrapped in a tuple is included as well (numpy treats it as a 1-tuple and
# CoordinateComponent._calculate has a branch for it).
PAL_Q = [['s', None, None, None], ['s', 1, None, None], ['s', None, None, 2], ['s', 0, 0, None],
         ['i', 0], ['i', -1]]
PAL_T = PAL_Q + [['s', None, -1, None], ['s', 1, None, 2], ['s', 1, 2, None], ['i', 1]]
# 3-d datasets get a smaller entry palette per axis (all tuples of length 1..3 over it are enumerated)
PAL_Q3 = [['s', None, None, None], ['s', 1, None, None], ['s', None, None, 2], ['i', 0]]
PAL_T3 = PAL_Q3 + [['s', 0, 0, None], ['i', -1], ['s', 1, None, 2]]


def view_descs(shape, palette):
    nd = len(shape)
    out = [['none'], ['ellipsis']]
    for e in palette:
        out.append(['bare', e])
    for k in range(1, nd + 1):
        for t in itertools.product(palette, repeat=k):
            out.append(['tuple', [list(e) for e in t]])
    out.append(['tuple', [['e'], ['s', None, None, 2]]])
    out.append(['tuple', [['s', 1, None, None], ['e']]])
    # tuples of equal-shape integer index arrays (1-d and 2-d), one array per axis
    out.append(['tuple', [['a', [0, s - 1, 0]] for s in shape]])
    out.append(['tuple', [['a', [[0, s - 1], [s - 1, 0]]] for s in shape]])
    out.append(['tuple', [['a', [(j + i) % s for j in range(4)]] for i, s in enumerate(shape)]])
    # 2-d index arrays that are NOT C-contiguous (a transposed (2, 3) array): numpy hands the layout of the index
    # on to the result, so whatever flattens and re-shapes along the way must do both in the same order
    out.append(['tuple', [['f', [[0, s - 1, (i + 1) % s], [s - 1, 0, i % s]]] for i, s in enumerate(shape)]])
    # the same kind of index arrays, but broadcast (zero strides), as np.meshgrid(copy=False) and the
    # fixed-resolution buffer produce them: axis i varies along array axis i % 2 only
    out.append(['tuple', [['b', [0, s - 1, 1 % s], i % 2] for i, s in enumerate(shape)]])
    out.append(['tuple', [['b', [s - 1, 0, 0], 0] for i, s in enumerate(shape)]])
    out.append(['mask', 'even'])
    out.append(['mask', 'first'])
    out.append(['mask', 'none'])
    return out


def make_entry(e):
    if e[0] == 's':
        return slice(e[1], e[2], e[3])
    if e[0] == 'i':
        return int(e[1])
    if e[0] == 'e':
        return Ellipsis
    if e[0] == 'a':
        return np.array(e[1], dtype=int)
    if e[0] == 'f':
        return np.array(e[1], dtype=int).T
    if e[0] == 'b':         # 2-d (3, 3) index array that is constant (stride 0) along one axis
        v = np.array(e[1], dtype=int)
        return np.broadcast_to(v[:, None] if e[2] == 0 else v[None, :], (len(v), len(v)))
    raise ValueError(e)


def make_view(desc, shape):
    k = desc[0]
    if k == 'none':
        return None
    if k == 'ellipsis':
        return Ellipsis
    if k == 'bare':
        return make_entry(desc[1])
    if k == 'tuple':
        return tuple(make_entry(e) for e in desc[1])
    if k == 'mask':
        rng = np.arange(int(np.prod(shape))).reshape(shape)
        if desc[1] == 'even':
            return rng % 2 == 0
        return rng < 0 if desc[1] == 'none' else rng == 0
    raise ValueError(desc)


def view_family(desc):
    """View form / code path (used in the keys of failures that are specific to a view)."""
    k = desc[0]
    if k in ('none', 'ellipsis', 'mask'):
        return k
    entries = [desc[1]] if k == 'bare' else desc[1]
    kinds = set(e[0] for e in entries)
    empty = any(e[0] == 's' and e[1] == 0 and e[2] == 0 for e in entries)
    if kinds <= {'s', 'i'}:
        return 'basic' + ('+empty' if empty else '')
    if kinds <= {'a', 'b', 'f'}:
        return 'index-arrays'
    return 'ellipsis-tuple'


def view_is_link_domain(desc):
    """ComponentLink.compute passes the view through util.join_component_view / split_component_view, which
    splat a bare ndarray into the key and unwrap a 1-tuple holding an ndarray into a bare ndarray; what
    happens to bare ndarrays there is C04's subject (and world-values below covers bare masks directly)."""
    if desc[0] == 'mask':
        return False
    if desc[0] == 'tuple' and len(desc[1]) == 1 and desc[1][0][0] in ('a', 'b', 'f'):
        return False
    return True


# --------------------------------------------------------------------------- one case
def build(case):
    from glue.core import Data
    from glue.core.coordinates import AffineCoordinates, IdentityCoordinates
    shape = tuple(case['shape'])
    n = len(shape)
    if case['kind'] == 'identity':
        coords = IdentityCoordinates(n_dim=n)
        pattern = np.identity(n, dtype=int).tolist()
    else:
        coords = AffineCoordinates(affine_matrix(case['pattern'], case['palette']))
        pattern = case['pattern']
    via = case.get('via')
    if via == 'restored':
        # components re-ordered (coordinate attributes out of axis order), then saved and restored
        from glue.core.state import GlueSerializer, GlueUnSerializer
        d = Data(x=np.arange(int(np.prod(shape)), dtype=float).reshape(shape), coords=coords, label='d')
        d.reorder_components(list(d.components)[::-1])
        d = GlueUnSerializer.loads(GlueSerializer(d).dumps()).object('__main__')
        coords = d.coords
    elif via is None:
        d = Data(x=np.arange(int(np.prod(shape)), dtype=float).reshape(shape), coords=coords, label='d')
    else:
        # the coordinate object is ASSIGNED to a dataset that already has components and (other) coordinates
        first = {'identity': lambda: IdentityCoordinates(n_dim=n), 'none': lambda: None,
                 'other': lambda: AffineCoordinates(affine_matrix(np.identity(n, dtype=int).tolist(),
                                                                  (case['palette'] + 1) % N_SEED_PALETTES))}[via]()
        d = Data(x=np.arange(int(np.prod(shape)), dtype=float).reshape(shape), coords=first, label='d')
        if via == 'other':
            d.coords = None          # ... dropped, and set again
        d.coords = coords
    return d, coords, pattern


def direct_grids(coords, shape):
    """Oracle: full (non-broadcast) pixel grids and the transformation called directly on them.
    Returned lists are in numpy axis order."""
    n = len(shape)
    P = [np.ascontiguousarray(g, dtype=float) for g in
         np.meshgrid(*[np.arange(s) for s in shape], indexing='ij')]
    W = coords.pixel_to_world_values(*P[::-1])
    W = [W] if n == 1 else list(W)
    W = [np.array(w, dtype=float) for w in W][::-1]
    return P, W


def direct_w2p(coords, Wnp):
    n = len(Wnp)
    X = coords.world_to_pixel_values(*[np.array(w, dtype=float) for w in Wnp[::-1]])
    X = [X] if n == 1 else list(X)
    return [np.array(x, dtype=float) for x in X][::-1]


def lattice(shape, pal):
    """World values unrelated to the dataset's own grid (each axis its own palette, full arrays)."""
    vals = [[-1.5, 0.25, 2., 3.75], [4., -0.5, 1.25, -2.75], [0.75, -3., 2.5, 1.]]
    axes = [np.array((vals[(i + pal) % 3] * 2)[:s]) for i, s in enumerate(shape)]
    G = np.meshgrid(*axes, indexing='ij')
    # make them genuinely n-dimensional (no axis constant) so that nothing can be dropped silently
    tot = sum(G)
    scale = PALETTES[pal].get('scale', 1.0) if pal < len(PALETTES) else 1.0      # world values of the palette's magnitude
    return [np.ascontiguousarray((g + 0.5 * tot) * scale) for g in G]


def same(obs, exp, atol):
    obs = np.asarray(obs)
    exp = np.asarray(exp)
    if obs.shape != exp.shape:
        return False
    if obs.size == 0:
        return True
    with np.errstate(all='ignore'):
        diff = np.abs(obs.astype(float) - exp)
    return bool(np.all(diff <= atol))       # NaN compares False -> mismatch


def jview(o):
    o = np.asarray(o)
    return dict(shape=list(o.shape), values=np.round(o.astype(float), 6).tolist() if o.size <= 48 else '...')


def view_palette(n, tier):
    if tier == 'quick':
        return PAL_Q if n < 3 else PAL_Q3
    return PAL_T if n < 3 else PAL_T3


def observe(fn, *args):
    try:
        return 'ok', np.asarray(fn(*args))
    except Exception as e:      # any exception from a legal view is a failure of the clause
        return 'exc', e


def check_case(res, case, tier, only=None):
    fscale = PALETTES[case['palette']].get('scale', 1.0) if case.get('kind') == 'affine' else 1.0
    """Evaluate every (clause, axis, view) of one coordinate object.  `only` (a violation's case dict)
    restricts the loops to that axis/view (used by confirm/replay)."""
    d, coords, pattern = build(case)
    shape = d.shape
    n = d.ndim
    a_np = np.array(pattern)[::-1, ::-1].tolist()        # [world, pixel] in numpy axis order
    cls = classify(a_np)
    tag = 'nd=%d|%s' % (n, cls)
    P, W = direct_grids(coords, shape)
    if only is not None and only.get('view') is not None:
        descs = [['none']] + ([only['view']] if only['view'] != ['none'] else [])
    else:
        descs = view_descs(shape, view_palette(n, tier))
    views = [(desc, make_view(desc, shape), view_family(desc)) for desc in descs]
    axes = list(range(n)) if only is None or only.get('axis') is None else [only['axis']]
    nontrivial_coupling = cls != 'independent'

    def base(**kw):
        c = dict(case)
        c.update(kw)
        return c

    # ---- inverse on the coordinate object (full grids, scalars)
    back = direct_w2p(coords, W)
    res.case(sig=('inv', case['kind'], case.get('palette'), n, pattern, shape) if nontrivial_coupling else None)
    if not all(same(b, p, ATOL_INV) for b, p in zip(back, P)):
        res.violation('inverse', 'inverse|%s' % tag, base(clause='inverse'),
                      [jview(b) for b in back], [jview(p) for p in P])
    pt = [float(s - 1) for s in shape]
    wpt = coords.pixel_to_world_values(*pt[::-1])
    wpt = [wpt] if n == 1 else list(wpt)
    bpt = coords.world_to_pixel_values(*wpt)
    bpt = [bpt] if n == 1 else list(bpt)
    if not same(np.array(bpt, dtype=float)[::-1], np.array(pt), ATOL_INV):
        res.violation('inverse', 'inverse|scalar|%s' % tag, base(clause='inverse-scalar'),
                      jview(np.array(bpt, dtype=float)[::-1]), pt)

    links = list(d._coordinate_links)
    p2w = dict((L.index, L) for L in links if L.pixel2world)
    w2p = dict((L.index, L) for L in links if not L.pixel2world)
    if sorted(p2w) != list(range(n)) or sorted(w2p) != list(range(n)) or len(links) != 2 * n:
        res.violation('links-exist', 'links-exist|%s' % tag, base(clause='links-exist'),
                      [str(L) for L in links], '%d pixel->world and %d world->pixel links' % (n, n))
        return

    # helper datasets holding given world values under the dataset's own world ComponentIDs
    from glue.core import Data
    helpers = []
    for name, vals in (('grid', W), ('lattice', lattice(shape, case.get('palette', 0)))):
        T = Data(label='T-' + name)
        for cid, v in zip(d.world_component_ids, vals):
            T.add_component(np.array(v), cid)
        helpers.append((name, T, direct_w2p(coords, vals)))

    def judge(clause, k, iv, fn, exp_full, atol, full_ok, extra=None):
        """Compare fn(view) with exp_full[view].  Returns True (agrees) / False (violation) / None (view not
        applicable).  Value mismatches are keyed by coupling class; the view family is added only when the
        unsliced result of the same observation is right (i.e. the failure is specific to the view)."""
        desc, view, fam = views[iv]
        try:
            exp = exp_full if view is None else exp_full[view]
        except IndexError:
            return None
        st, obs = observe(fn, view)
        trivial = (not nontrivial_coupling) or np.size(exp) <= 1
        res.case(sig=None if trivial else (clause, extra, case['kind'], case.get('palette'), pattern, shape, k, desc),
                 sample=dict(clause=clause, axis=k, view=desc, **case))
        if st == 'ok' and same(obs, exp, atol):
            return True
        if st == 'exc':
            key = '%s|view=%s|%s' % (clause, fam, type(obs).__name__)
            o = repr(obs)
        else:
            key = '%s|%s' % (clause, tag) if (desc[0] == 'none' or not full_ok) else \
                '%s|view=%s|%s' % (clause, fam, tag)
            o = jview(obs)
        res.violation(clause, key, base(clause=clause, axis=k, view=desc, inputs=extra), o, jview(exp))
        return False

    def sweep(clause, k, fn, exp_full, atol, extra=None, link=False, gate=None):
        out = {}
        full_ok = True
        for iv, (desc, view, fam) in enumerate(views):
            if link and not view_is_link_domain(desc):
                continue
            if gate is not None and not gate(iv):
                res.count('roundtrip_not_judged_inputs_already_reported')
                continue
            r = judge(clause, k, iv, fn, exp_full, atol, full_ok, extra)
            if desc[0] == 'none':
                full_ok = r is True
            out[iv] = r
        return out

    # world attributes (all axes: the roundtrip gate needs them)
    world_ok = {}
    for k in range(n):
        wc = d.world_component_ids[k]
        if k in axes or (only is not None and only.get('clause') == 'roundtrip'):
            if only is not None and only.get('clause') not in ('world-values', 'roundtrip', None):
                continue
            world_ok[k] = sweep('world-values', k, lambda view, wc=wc: d[wc] if view is None else d[wc, view],
                                W[k], ATOL_FWD * fscale)

    for k in axes:
        want = None if only is None else only.get('clause')
        if want in (None, 'p2w-link'):
            L = p2w[k]
            sweep('p2w-link', k, lambda view, L=L: L.compute(d, view), W[k], ATOL_FWD * fscale, link=True)
        L = w2p[k]
        grid_ok = {}
        if want in (None, 'w2p-link', 'roundtrip'):
            for name, T, exp_pix in helpers:
                r = sweep('w2p-link', k, lambda view, L=L, T=T: L.compute(T, view), exp_pix[k], ATOL_INV,
                          extra=name, link=True)
                if name == 'grid':
                    grid_ok = r
        if want in (None, 'roundtrip'):
            # end to end on the dataset itself; judged only where its two ingredients were found right, so
            # that one defect is not reported three times
            def gate(iv):
                return grid_ok.get(iv) is True and all(world_ok[j].get(iv) is True for j in range(n))
            sweep('roundtrip', k, lambda view, L=L: L.compute(d, view), P[k], ATOL_INV, link=True, gate=gate)


# --------------------------------------------------------------------------- driver
def all_cases(tier):
    pals = [core.seed() % N_SEED_PALETTES] if tier == 'quick' else list(range(N_SEED_PALETTES))
    shape_sets = [SHAPES] if tier == 'quick' else [SHAPES, SHAPES_T]
    cases = []
    for ss in shape_sets:
        for n in (3, 2, 1):
            cases.append(dict(kind='identity', shape=list(ss[n])))
            for ip in pals:
                if ss is SHAPES_T and ip != pals[0]:
                    continue
                for p in patterns(n):
                    cases.append(dict(kind='affine', pattern=p, palette=ip, shape=list(ss[n])))
        # the tiny-magnitude palette: every 1-d and 2-d pattern, and for 3-d the permutation patterns (quick) or
        # every pattern (thorough)
        if ss is SHAPES:
            for n in (3, 2, 1):
                for p in patterns(n):
                    if n < 3 or tier == 'thorough' or sum(map(sum, p)) == 3:
                        cases.append(dict(kind='affine', pattern=p, palette=TINY_PAL, shape=list(ss[n])))
                        cases.append(dict(kind='affine', pattern=p, palette=INT_PAL, shape=list(ss[n])))
    # coordinates REPLACED on an existing dataset (same dimensionality): world attributes and links must follow
    base = pals[0]
    for n in (3, 2, 1):
        for p in patterns(n):
            if n < 3 or sum(map(sum, p)) <= (9 if tier == 'thorough' else 4):
                for via in ('identity', 'none', 'other') + (('restored',) if n > 1 else ()):
                    cases.append(dict(kind='affine', pattern=p, palette=base, shape=list(SHAPES[n]), via=via))
    return cases


def work(shard):
    tier, cases = shard
    core.bind()
    res = core.Result()
    for c in cases:
        core.reset_globals()
        check_case(res, c, tier)
        res.count('coupling_class:' + classify(np.array(c['pattern'])[::-1, ::-1].tolist())
                  if c['kind'] == 'affine' else 'coupling_class:identity-coordinates')
    return res


RULE = ('one case = (coordinate object, shape); inside it every world/pixel axis x every view of the alphabet '
        'x clause (world-values, p2w-link, w2p-link on two input sets, roundtrip) is evaluated.  Coordinate '
        'objects: every zero/non-zero pattern of the linear part with a perfect matching (1+7+247) with fixed '
        'dyadic coefficients, and IdentityCoordinates.  non-trivial = the coupling is not the independent '
        '(diagonal) one and the expected result has more than one element; distinct = distinct '
        '(clause, inputs, palette, pattern, shape, axis, view)')

ASSUMPTIONS = [
    'coordinate objects are AffineCoordinates (square, invertible, every coupling pattern for 1-3 dims) and '
    'IdentityCoordinates; astropy WCS / non-square / LegacyCoordinates are outside the bound',
    'one fixed coefficient palette per run in quick (VERIF_SEED selects 1 of 3 pre-validated palettes), all 3 in thorough; plus a tiny-magnitude float palette and an integer-dtype (int64 matrix) palette in both tiers',
    'shapes: (3,), (3,4), (2,3,4); thorough adds (4,), (4,3), (3,2,4) for the first palette',
    'link clauses use every view except bare ndarray views (a bare ndarray is splatted by util.join_component_view '
    'before it reaches the link; that behaviour belongs to C04)',
    'world->pixel links are evaluated on a helper Data that stores the world values under the same ComponentIDs '
    '(isolates the link from the world attributes) and on the dataset itself (roundtrip clause)',
    'forward comparisons use atol 1e-9 (arithmetic is exact for the palettes), inverse comparisons atol 1e-8 '
    '(cond <= 240)',
]


def run(tier):
    t0 = time.time()
    _validate_palettes()
    cases = all_cases(tier)
    cases = core.rotate(cases)
    total = core.run_shards(work, [(tier, s) for s in core.split(cases, core.jobs() * 6)])
    dims = dict(coordinate_objects=len(cases),
                patterns_per_ndim={n: len(patterns(n)) for n in (1, 2, 3)},
                palettes=1 if tier == 'quick' else len(PALETTES),
                views_per_ndim={n: len(view_descs(SHAPES[n], view_palette(n, tier))) for n in (1, 2, 3)},
                clauses=['inverse', 'world-values', 'p2w-link', 'w2p-link(grid)', 'w2p-link(lattice)', 'roundtrip'])
    return core.finish(PROP, tier, total, 'exploration', RULE, t0,
                       coverage=dict(product_dimensions=dims), confirm=confirm, assumptions=ASSUMPTIONS)


def _case_of(v):
    c = v['case']
    return dict((k, c[k]) for k in ('kind', 'pattern', 'palette', 'shape', 'via') if k in c)


def confirm(v, verbose=False):
    core.reset_globals()
    res = core.Result()
    check_case(res, _case_of(v), 'thorough', only=v['case'])
    hit = [x for x in res.violations if x['key'] == v['key']]
    if verbose:
        for x in hit[:1]:
            print('  case    ', core.jdump(x['case']))
            print('  observed', core._clip(x['observed']))
            print('  expected', core._clip(x['expected']))
    return bool(hit)


def replay(doc):
    return confirm(doc, verbose=True)
