"""C09 - a drawn region becomes a selection of exactly the points the region contains.

Mode I (bounded-exhaustive input enumeration).  For every table (number of categories per axis, every
assignment order of the labels), every pair of axis kinds (numeric / categorical on x and on y) and every
region of a lattice swept over the offsets {.25,.5,.75} relative to the integer category positions -1..k,
the REAL `roi_to_subset_state(...)` is evaluated with `Data.get_mask` and compared with
`roi.contains(plotted x, plotted y)` (plotted position of a categorical value = its index in the sorted
unique labels, computed here in plain python; a NaN coordinate is never inside a region that looks at it).

An element is compared only when it is outside the boundary band by TWO independent filters:
  * analytic distance to the region boundary (mc/geom.py, no glue code) > 1e-6 * scale - for curved regions
    on a mixed categorical/numeric pair of axes the band also covers the sliver between the curve and the
    99-gon that glue substitutes for it;
  * perturbation stability: roi.contains gives the same answer at +-1e-6 in x and in y.
and only when the analytic oracle and roi.contains agree on it (a disagreement there is C08's subject and
is counted, not reported).
"""
import math
import time
import itertools

import numpy as np

from mc import core, geom

PROP = 'C09'
PI = math.pi
EPS = 1e-6

RULE = ('one evaluation = one (table, axis kinds, region[, pretransform variant]) with the selection mask of the '
        'real code compared element-wise against roi.contains on the plotted positions; non-trivial = among the '
        'compared (off-band) elements some are selected and some are not')

ASSUMPTIONS = [
    '1-d tables; categorical labels are strings of unequal length; numeric columns contain NaN rows',
    'x_categories / y_categories are the component categories exactly as the viewers pass them',
    'CategoricalROI regions are only applied with a categorical x axis (the code documents that assumption)',
    'use_pretransform / pretransform variants only on numeric-numeric axes (the only case where glue attaches one)',
    'band = 1e-6 * max(1, |coordinates|); for circles / ellipses / annuli on mixed axes additionally the '
    'discretisation sliver r*(1-cos(pi/99)) of to_polygon()',
    'rotated rectangles are part of "rectangular regions" (RectangularROI carries theta)',
]

# labels of unequal length in which one label EXTENDS another ('a' / 'ab', 'y' / 'yx'): comparing labels after a
# cast to a narrower string width would confuse them
CATS_X = [['a'], ['ab', 'a'], ['c', 'a', 'ab'], ['d', 'a', 'c', 'ab']]
CATS_Y = [['y'], ['y', 'yx'], ['w', 'y', 'yx'], ['w', 'y', 'v', 'yx']]
FRAC_PALETTES = [[0.0, 0.4], [0.1, 0.6], [0.0, 0.9]]     # numeric values relative to the category positions; all >= 0.1 away from the region edges


# --------------------------------------------------------------------------------------------------
# tables
# --------------------------------------------------------------------------------------------------

def tables(tier):
    out = []
    fr = FRAC_PALETTES[core.seed() % len(FRAC_PALETTES)]
    for k in (1, 2, 3, 4):
        perms = list(itertools.permutations(range(k)))
        if k == 4 and tier == 'quick':
            perms = [perms[0], perms[-1]]
        for p in perms:
            out.append(dict(kx=k, ky=k, px=list(p), py=list(p[::-1]), fr=fr))
    # explicit, UNSORTED category order on the component (CategoricalComponent(labels, categories=...)): the
    # plotted position of a label is its index in that order
    orders = {2: [(1, 0)], 3: [(2, 0, 1), (1, 2, 0), (0, 2, 1)], 4: [(0, 1, 3, 2), (3, 1, 0, 2)]}
    for k in (2, 3, 4):
        for o in (orders[k] if tier == 'quick' else list(itertools.permutations(range(k)))[1:]):
            out.append(dict(kx=k, ky=k, px=list(range(k)), py=list(range(k))[::-1], fr=fr,
                            ox=list(o), oy=list(o[::-1])))
    if tier == 'thorough':
        for kx, ky in itertools.permutations((1, 2, 3, 4), 2):
            out.append(dict(kx=kx, ky=ky, px=list(range(kx))[::-1], py=list(range(ky)), fr=fr))
    return out


def make_table(t):
    """Columns (plain python / numpy) and the independent plotted positions."""
    kx, ky = t['kx'], t['ky']
    numx = [c + f for c in range(-1, kx + 1) for f in t.get('fr', FRAC_PALETTES[0])]
    numy = [c + f + 0.05 for c in range(-1, ky + 1) for f in t.get('fr', FRAC_PALETTES[0])]
    labx = [CATS_X[kx - 1][i] for i in t['px']]
    laby = [CATS_Y[ky - 1][i] for i in t['py']]
    rows = [(i, j) for i in range(len(numx)) for j in range(len(numy))]
    xn = [numx[i] for i, j in rows] + [float('nan'), 0.4, float('nan')]
    yn = [numy[j] for i, j in rows] + [0.45, float('nan'), float('nan')]
    a = [labx[i % kx] for i, j in rows] + [labx[0], labx[-1], labx[0]]
    b = [laby[j % ky] for i, j in rows] + [laby[-1], laby[0], laby[0]]
    sx, sy = sorted(set(a)), sorted(set(b))
    if 'ox' in t:
        sx = [sx[i] for i in t['ox']]
    if 'oy' in t:
        sy = [sy[i] for i in t['oy']]
    pos = dict(xn=np.array(xn), yn=np.array(yn),
               a=np.array([sx.index(v) for v in a], dtype=float),
               b=np.array([sy.index(v) for v in b], dtype=float))
    return dict(xn=np.array(xn), yn=np.array(yn), a=np.array(a), b=np.array(b)), pos, sx, sy


# --------------------------------------------------------------------------------------------------
# regions
# --------------------------------------------------------------------------------------------------

def edges(k):
    return [c + f for c in range(-1, k + 1) for f in (0.25, 0.5, 0.75)]


def regions(t, tier):
    ex, ey = edges(t['kx']), edges(t['ky'])
    out = []
    for lo, hi in itertools.combinations(ex, 2):
        out.append(dict(kind='xrange', p=[lo, hi]))
    for lo, hi in itertools.combinations(ey, 2):
        out.append(dict(kind='yrange', p=[lo, hi]))
    rects = [[x0, x1, y0, y1] for (x0, x1), (y0, y1) in
             itertools.product(itertools.combinations(ex[::2], 2), itertools.combinations(ey[::2], 2))]
    for r in rects:
        out.append(dict(kind='rect', p=r + [0.0]))
    for r in rects[::5]:
        for th in (PI / 2, 0.3) + ((PI, -PI / 4) if tier == 'thorough' else ()):
            out.append(dict(kind='rect', p=r + [th]))
    radii = (0.6, 1.3, 2.2) + ((0.35, 3.1) if tier == 'thorough' else ())
    for cx, cy, r in itertools.product(ex[::3], ey[1::3], radii):
        out.append(dict(kind='circle', p=[cx, cy, r]))
        out.append(dict(kind='ellipse', p=[cx, cy, r, r / 2, 0.0]))
        out.append(dict(kind='ellipse', p=[cx, cy, r / 2, r, 0.7]))
        # slender and tall (radius_y >> radius_x), tilted: inside points far beyond radius_x from the centre
        out.append(dict(kind='ellipse', p=[cx, cy, r / 3, 1.5 * r, -0.4]))
        out.append(dict(kind='annulus', p=[cx, cy, r / 2, r]))
        out.append(dict(kind='poly', name='tri', vx=[cx - r, cx + r, cx + 0.1], vy=[cy - r / 2, cy - r / 3, cy + r]))
        out.append(dict(kind='poly', name='L', vx=[cx - r, cx + r, cx + r, cx, cx, cx - r],
                        vy=[cy - r, cy - r, cy, cy, cy + r, cy + r]))
        # vertices exactly on category positions (the line through a category passes through vertices)
        ix, iy = float(round(cx)), float(round(cy))
        out.append(dict(kind='poly', name='diamond', vx=[ix, ix + 0.8 * r, ix, ix - 0.8 * r],
                        vy=[iy - r, iy, iy + r, iy]))
        out.append(dict(kind='poly', name='tipx', vx=[ix, ix - r, ix - r], vy=[cy, cy + r / 2, cy - r / 2]))
        out.append(dict(kind='poly', name='tipy', vx=[cx, cx + r / 2, cx - r / 2], vy=[iy, iy - r, iy - r]))
    return out


def cat_regions(t):
    labs = sorted(CATS_X[t['kx'] - 1])
    out = []
    for r in range(len(labs) + 1):
        for sub in itertools.combinations(labs, r):
            out.append(dict(kind='categorical', cats=list(sub)))
            out.append(dict(kind='categorical', cats=list(sub) + ['aa', 'zz']))
    return out


def build(spec):
    from glue.core import roi as R
    k = spec['kind']
    if k == 'rect':
        x0, x1, y0, y1, t = spec['p']
        return R.RectangularROI(x0, x1, y0, y1, theta=t), geom.Box((x0 + x1) / 2, (y0 + y1) / 2, x1 - x0, y1 - y0, t)
    if k == 'ellipse':
        cx, cy, a, b, t = spec['p']
        return R.EllipticalROI(cx, cy, a, b, theta=t), geom.Oval(cx, cy, a, b, t)
    if k == 'circle':
        cx, cy, r = spec['p']
        return R.CircularROI(cx, cy, r), geom.Disc(cx, cy, r)
    if k == 'annulus':
        cx, cy, r0, r1 = spec['p']
        return R.CircularAnnulusROI(float(cx), float(cy), float(r0), float(r1)), geom.Ring(cx, cy, r0, r1)
    if k == 'poly':
        return R.PolygonalROI(list(spec['vx']), list(spec['vy'])), geom.Poly(spec['vx'], spec['vy'])
    if k in ('xrange', 'yrange'):
        lo, hi = spec['p']
        return (R.XRangeROI if k == 'xrange' else R.YRangeROI)(lo, hi), geom.Strip(k[0], lo, hi)
    if k == 'categorical':
        return R.CategoricalROI(spec['cats']), None
    raise ValueError(k)


def roi_kind(spec):
    k = spec['kind']
    if k in ('rect', 'ellipse'):
        t = spec['p'][4]
        return k if abs(math.sin(t)) < 1e-12 else k + '-rot'
    if k == 'poly':
        return 'poly-' + spec['name']
    return k


# --------------------------------------------------------------------------------------------------
# one evaluation
# --------------------------------------------------------------------------------------------------

def _pre(x, y):
    return x * 0.5 + 0.75, y + 0.25


class World(object):
    """A real Data object for one table plus the independently computed plotted positions."""

    def __init__(self, t):
        from glue.core import Data
        cols, self.pos, sx, sy = make_table(t)
        self.cols = cols
        if 'ox' in t or 'oy' in t:
            from glue.core.component import CategoricalComponent
            self.d = Data(label='t', xn=cols['xn'], yn=cols['yn'])
            self.d.add_component(CategoricalComponent(cols['a'], categories=np.array(sx)), 'a')
            self.d.add_component(CategoricalComponent(cols['b'], categories=np.array(sy)), 'b')
        else:
            self.d = Data(label='t', **cols)
        self.att = dict(num=(self.d.id['xn'], self.d.id['yn']), cat=(self.d.id['a'], self.d.id['b']))
        ca = self.d.get_component(self.d.id['a']).categories
        cb = self.d.get_component(self.d.id['b']).categories
        if list(ca) != sx or list(cb) != sy:
            raise core.EngineError('categories of the component differ from sorted unique labels: %r %r' % (ca, cb))
        self.cats = (ca, cb)


def evaluate(res, w, case):
    from glue.core.subset import roi_to_subset_state
    xk, yk, spec, pre = case['xk'], case['yk'], case['roi'], case.get('pre', 'none')
    roi, oracle = build(spec)
    xatt = w.att[xk][0]
    yatt = w.att[yk][1]
    px = w.pos['xn' if xk == 'num' else 'a']
    py = w.pos['yn' if yk == 'num' else 'b']
    nan = np.isnan(px) | np.isnan(py)
    kind = roi_kind(spec)
    key = 'mask|%s|%s-%s' % (kind, xk, yk) + ('' if pre == 'none' else '|pre=' + pre)
    if spec['kind'] == 'categorical':
        labels = w.cols['a']
        exp = np.array([v in set(spec['cats']) for v in labels.tolist()])
        ok = np.ones(len(exp), bool)
    else:
        qx, qy = _pre(px, py) if pre == 'func' else (px, py)
        exp = np.asarray(roi.contains(qx, qy), bool)
        stable = np.ones(len(exp), bool)
        for dx, dy in ((EPS, 0), (-EPS, 0), (0, EPS), (0, -EPS)):
            stable &= (np.asarray(roi.contains(qx + dx, qy + dy), bool) == exp)
        band = EPS * max(1.0, oracle.scale(), float(np.nanmax(np.abs(qx))), float(np.nanmax(np.abs(qy))))
        mixed = xk != yk
        if oracle.curved and mixed:
            far = ~oracle.poly_exclude(qx, qy, band)
        else:
            far = oracle.bdist(qx, qy) > band
        agree = oracle.inside(qx, qy) == exp
        res.count('elements_dropped_by_distance_band', int((~far & ~nan).sum()))
        res.count('elements_dropped_by_stability_only', int((far & ~stable & ~nan).sum()))
        dis = far & stable & ~agree & ~nan
        if dis.any():
            # "lies in the region" is a geometric fact: where the region's own contains() and the analytic
            # geometry disagree away from the boundary, the region is wrong about itself and so is every
            # selection drawn with it (an earlier version only counted these elements and left them out)
            res.count('elements_where_geometry_oracle_and_roi_contains_disagree', int(dis.sum()))
            i = int(np.flatnonzero(dis)[0])
            res.violation('region-geometry', 'region|%s|%s-%s|contains-vs-geometry' % (kind, xk, yk), case,
                          dict(row=i, plotted=[float(qx[i]), float(qy[i])], contains=bool(exp[i]), n_bad=int(dis.sum())),
                          dict(inside=bool(oracle.inside(qx, qy)[i])))
        # rows with a NaN coordinate have no band; the region's own answer for them (False whenever the
        # region looks at that coordinate; a range region ignores the other axis) is the expectation
        ok = (far & stable & agree) | (nan & np.isnan(oracle.bdist(qx, qy)) & stable)
    try:
        state = roi_to_subset_state(roi, x_att=xatt, y_att=yatt,
                                    x_categories=w.cats[0] if xk == 'cat' else None,
                                    y_categories=w.cats[1] if yk == 'cat' else None,
                                    use_pretransform=(pre != 'none'))
        if pre == 'func':
            state.pretransform = _pre
        got = np.asarray(w.d.get_mask(state))
    except Exception as e:
        res.case()
        res.violation('raises', 'raises|%s|%s-%s|%s' % (kind, xk, yk, type(e).__name__), case, repr(e), 'a mask')
        return
    e_ok = exp[ok]
    res.case(sig=core.short_hash(case) if e_ok.any() and not e_ok.all() else None,
             sample=dict(case=case, state=type(state).__name__, elements=int(len(exp)), compared=int(ok.sum()),
                         selected=int(e_ok.sum())))
    res.count('state_' + type(state).__name__)
    if got.shape != exp.shape:
        res.violation('mask-shape', key + '|shape', case, list(got.shape), list(exp.shape))
        return
    bad = ok & (got.astype(bool) != exp)
    if bad.any():
        i = int(np.flatnonzero(bad)[0])
        if nan[bad].all():
            key += '|nan-rows'
        res.violation('mask', key, case,
                      dict(row=i, plotted=[float(px[i]), float(py[i])], selected=bool(got[i]), n_bad=int(bad.sum()),
                           n_compared=int(ok.sum()), state=type(state).__name__),
                      dict(selected=bool(exp[i])))


# --------------------------------------------------------------------------------------------------
# enumeration
# --------------------------------------------------------------------------------------------------

KINDS = [('num', 'num'), ('cat', 'num'), ('num', 'cat'), ('cat', 'cat')]
SLICE = 350


def region_list(t, xk, yk, tier):
    regs = [(r, 'none') for r in regions(t, tier)]
    if xk == 'cat':
        regs += [(r, 'none') for r in cat_regions(t)]
    if (xk, yk) == ('num', 'num'):
        base = regions(t, 'quick')          # position-based picks below must not depend on the tier
        regs += [(r, 'flag') for r in base if r['kind'] in ('xrange', 'yrange')]
        regs += [(r, 'flag') for r in base[::9] if r['kind'] not in ('xrange', 'yrange')]
        regs += [(r, 'func') for r in base[::4]]
    return regs


def all_items(tier):
    items = []
    for t in tables(tier):
        for xk, yk in KINDS:
            n = len(region_list(t, xk, yk, tier))
            for s in range(0, n, SLICE):
                items.append([t, xk, yk, s])
    return items


def work(shard):
    tier, items = shard
    core.bind()
    res = core.Result()
    for t, xk, yk, s in items:
        core.reset_globals()
        w = World(t)
        for spec, pre in region_list(t, xk, yk, tier)[s:s + SLICE]:
            core.reset_globals()
            case = dict(table=t, xk=xk, yk=yk, roi=spec)
            if pre != 'none':
                case['pre'] = pre
            evaluate(res, w, case)
    return res


def run(tier):
    t0 = time.time()
    core.bind()
    items = core.rotate(all_items(tier))
    total = core.run_shards(work, [(tier, s) for s in core.split(items, core.jobs() * 8)])
    tabs = tables(tier)
    dims = dict(tables=len(tabs), category_counts=[1, 2, 3, 4],
                label_orders={str(k): sum(1 for t in tabs if t['kx'] == k and t['ky'] == k) for k in (1, 2, 3, 4)},
                axis_kind_pairs=4, rows_per_table='%d..%d' % (len(make_table(tabs[0])[1]['xn']),
                                                             len(make_table(tabs[-1])[1]['xn'])),
                regions_per_table_k4={k: sum(1 for r in regions(dict(kx=4, ky=4), tier) if roi_kind(r) == k)
                                      for k in sorted(set(roi_kind(r) for r in regions(dict(kx=4, ky=4), tier)))},
                edge_offsets=[0.25, 0.5, 0.75], work_items=len(items))
    return core.finish(PROP, tier, total, 'exploration', RULE, t0, coverage=dict(product_dimensions=dims),
                       confirm=confirm, assumptions=ASSUMPTIONS)


def confirm(v, verbose=False):
    core.bind()
    core.reset_globals()
    res = core.Result()
    case = v['case']
    evaluate(res, World(case['table']), case)
    hit = [x for x in res.violations if x['key'] == v['key']]
    if verbose:
        for x in hit[:1]:
            print('  observed', core._clip(x['observed']))
            print('  expected', core._clip(x['expected']))
    return bool(hit)


def replay(doc):
    return confirm(doc, verbose=True)
