"""C19 - exported data files load back to the same table or image (Mode I).

Every case writes a dataset or a subset with a REAL registered exporter into a
scratch directory under /dev/shm, reads the file back with `load_data` (the
factory glue itself picks for the file, plus the explicitly registered
"FITS table" factory for FITS tables) and compares names, order, row
count / shape and values with an oracle computed from the arrays the dataset
was built from.  Session cases save a collection of file-backed datasets *by
reference* and compare the restored collection with what the first load gave.
"""
import os
import time
import shutil
import tempfile
import itertools

import numpy as np

from mc import core

PROP = 'C19'

NAN = float('nan')
# value palettes (selected by VERIF_SEED % 3); identical structure: NaN at index 1, text with an
# embedded blank at index 1, a comma / dash / digit at index 3, no leading/trailing blanks, nothing
# that parses as a number
PALETTES = [
    dict(f=[1.5, NAN, -3.25, 0.1], i=[4, 5, -6, 70000], s=['ab', 'c d', 'xyz', 'Q,r'], n=[NAN] * 4),
    dict(f=[-0.5, NAN, 1e10, 2.0 ** -20], i=[-1, 1099511627776, 7, 17], s=['left', 'm m', 'Right', 'z-9'],
         n=[NAN] * 4),
    dict(f=[1.0 / 3.0, NAN, -7.75, 123456.789], i=[100, -200, 3, 2147483648],
         s=['one', 'two words', 'Tri', 'x_y'], n=[NAN] * 4),
]
# column kinds: f float with one NaN, i integer, s text, n float column that is NaN throughout (thorough only)
NAMES = [dict(f='col_f', i='Col_i', s='col_S', n='col_n'),
         dict(f='Flux', i='count', s='Name', n='blank'),
         dict(f='Alpha', i='beta2', s='Gamma_3', n='Nu4')]
DERIVED = 'der'
UNI = ['caf\u00e9', '\u00c5ngstr\u00f6m', 'na\u00efve x', '\u00b5m']

TABLE_FMTS = ['csv', 'fits-table', 'votable', 'hdf5-table']
IMAGE_FMTS = ['gridded-fits', 'hdf5-image']
EXT = {'csv': 'csv', 'fits-table': 'fits', 'votable': 'vot', 'hdf5-table': 'hdf5',
       'gridded-fits': 'fits', 'hdf5-image': 'hdf5'}


def exporter(fmt):
    from glue.core.data_exporters.astropy_table import csv_exporter, fits_exporter, votable_exporter
    from glue.core.data_exporters.hdf5 import hdf5_writer
    from glue.core.data_exporters.gridded_fits import fits_writer
    return {'csv': csv_exporter, 'fits-table': fits_exporter, 'votable': votable_exporter,
            'hdf5-table': hdf5_writer, 'gridded-fits': fits_writer, 'hdf5-image': hdf5_writer}[fmt]


def load(path, loader):
    from glue.core.data_factories import load_data
    if loader == 'auto':
        return load_data(path)
    if loader == 'fits-table-factory':
        from glue.core.data_factories.astropy_table import astropy_tabular_data_fits
        return load_data(path, factory=astropy_tabular_data_fits)
    raise core.EngineError('unknown loader %r' % (loader,))


# ------------------------------------------------------------------ the space
def arrangements(tier='quick'):
    """every ordered arrangement of 1..3 of the column kinds: f, i, s (15) / f, i, s, n (40)."""
    out = []
    for r in (1, 2, 3):
        out += [''.join(p) for p in itertools.permutations('fis' if tier == 'quick' else 'fisn', r)]
    return out


def masks(n, tier):
    if tier == 'quick':
        base = [[0] * n, [1] * n]
        if n == 3:
            base += [[1, 0, 1], [0, 1, 0]]
        return base
    return [list(m) for m in itertools.product([0, 1], repeat=n)]


def sel_class(sel):
    if sel == 'whole':
        return 'whole'
    if not any(sel):
        return 'empty-selection'
    if all(sel):
        return 'full-selection'
    return 'proper-selection'


def table_cases(tier, pal):
    rows = (1, 3) if tier == 'quick' else (1, 2, 3, 4)
    out = []
    for cols in arrangements(tier):
        for derived in (0, 1):
            if derived and not set(cols) & set('fin'):
                continue
            nexp = len(cols) + derived
            for nrow in rows:
                for sel in ['whole'] + masks(nrow, tier):
                    comps = [None]
                    if tier == 'thorough' and nrow == 3 and sel in ('whole', [1, 0, 1]) and nexp > 1:
                        # components= : every proper non-empty sub-list of what would be exported
                        comps += [list(s) for r in range(1, nexp)
                                  for s in itertools.combinations(range(nexp), r)]
                    for comp in comps:
                        for fmt in TABLE_FMTS:
                            loaders = ['auto'] + (['fits-table-factory'] if fmt == 'fits-table' else [])
                            for loader in loaders:
                                out.append(dict(kind='table', fmt=fmt, cols=cols, derived=derived,
                                                nrow=nrow, sel=sel, loader=loader, components=comp,
                                                pal=pal))
    return out


def image_masks(shape, tier):
    size = int(np.prod(shape))
    idx = np.arange(size).reshape(shape)
    pats = [np.zeros(shape, int), np.ones(shape, int), (idx % 2 == 0).astype(int),
            (np.indices(shape)[0] == 0).astype(int)]
    # every selected-pixel COUNT 0..size occurs (first k and last k pixels in storage order), so that a
    # shortcut keyed on how many pixels are selected cannot hide
    for k in range(size + 1):
        pats += [(idx < k).astype(int), (idx >= size - k).astype(int)]
    if tier == 'thorough':
        pats += [(idx % 3 == 1).astype(int), (np.indices(shape)[-1] == shape[-1] - 1).astype(int)]
        if size <= 6:
            pats = [np.array(m).reshape(shape) for m in itertools.product([0, 1], repeat=size)]
    seen, out = set(), []
    for p in pats:
        t = tuple(p.ravel().tolist())
        if t not in seen:
            seen.add(t)
            out.append(list(t))
    return out


def image_cases(tier, pal):
    shapes = [(2, 3), (2, 2, 2)] if tier == 'quick' else [(2, 3), (2, 2, 2), (2, 2), (1, 4), (3, 2), (2, 1, 3)]
    out = []
    for shape in shapes:
        for cols in ('f', 'i', 'fi', 'if'):
            for sel in ['whole'] + image_masks(shape, tier):
                for fmt in IMAGE_FMTS:
                    out.append(dict(kind='image', fmt=fmt, shape=list(shape), cols=cols, sel=sel, pal=pal))
    return out


def session_cases(tier, pal):
    out = []
    arr = ['f', 'i', 's', 'fis', 'sif'] if tier == 'quick' else arrangements(tier)
    for cols in arr:
        for sel in ('whole', [1, 0, 1]):
            for fmt in TABLE_FMTS:
                inner = dict(kind='table', fmt=fmt, cols=cols, derived=1 if set(cols) & set('fin') else 0,
                             nrow=3, sel=sel, loader='auto', components=None, pal=pal)
                out.append(dict(kind='session', inner=inner))
    for shape in ([(2, 3)] if tier == 'quick' else [(2, 3), (2, 2, 2)]):
        for cols in ('f', 'fi', 'if'):
            for sel in ('whole', image_masks(shape, 'quick')[2]):
                for fmt in IMAGE_FMTS:
                    inner = dict(kind='image', fmt=fmt, shape=list(shape), cols=cols, sel=sel, pal=pal)
                    out.append(dict(kind='session', inner=inner))
    # the same file read as SEVERAL datasets (one per stored array / HDU: factory option auto_merge=False):
    # the session then refers to one file for several datasets
    for cols in ('fi', 'if', 'fis') if tier == 'quick' else ('fi', 'if', 'fis', 'sif', 'ffi'):
        inner = dict(kind='table', fmt='hdf5-table', cols=cols, derived=0, nrow=3, sel='whole', loader='auto',
                     components=None, pal=pal)
        out.append(dict(kind='session', inner=inner, split=True))
    for shape in ([(2, 3)] if tier == 'quick' else [(2, 3), (2, 2, 2)]):
        for fmt in IMAGE_FMTS:
            inner = dict(kind='image', fmt=fmt, shape=list(shape), cols='fi', sel='whole', pal=pal)
            out.append(dict(kind='session', inner=inner, split=True))
    return out


def split_load(path, fmt):
    from glue.core.data_factories import load_data
    if fmt.startswith('hdf5'):
        from glue.core.data_factories.hdf5 import hdf5_reader as reader
    else:
        from glue.core.data_factories.fits import fits_reader as reader
    return load_data(path, factory=reader, auto_merge=False)


def all_cases(tier):
    pal = core.seed() % len(PALETTES)
    cases = table_cases(tier, pal) + image_cases(tier, pal)
    # the same numeric data stored BIG-endian (what everything read from FITS is): byte order must not matter
    be = []
    for c in cases:
        if set(c['cols']) & set('fi') and c.get('components') is None and c.get('loader', 'auto') == 'auto' and \
                (tier == 'thorough' or (c.get('nrow', 3) == 3 and not c.get('derived'))):
            be.append(dict(c, be=True))
        # ... and float columns stored as float32 (readers that special-case 'float' often mean float64)
        if 'f' in c['cols'] and c.get('components') is None and \
                (tier == 'thorough' or (c.get('nrow', 3) == 3 and not c.get('derived'))):
            be.append(dict(c, f32=True))
        # text columns whose category codes have been jittered for display (CategoricalComponent.jitter): the codes
        # are then no longer integers, the text is unchanged
        if 's' in c['cols'] and c.get('components') is None and \
                (tier == 'thorough' or (c.get('nrow', 3) == 3 and not c.get('derived'))):
            be.append(dict(c, jitter=True))
        # text outside ASCII, for the formats whose encoding can hold it (CSV and VO table are UTF-8) and for HDF5,
        # whose writer documents the replacement of what ASCII cannot hold
        if 's' in c['cols'] and c['kind'] == 'table' and c['fmt'] in ('csv', 'votable', 'hdf5-table') and \
                c.get('components') is None and (tier == 'thorough' or (c.get('nrow', 3) == 3 and not c.get('derived'))):
            be.append(dict(c, uni=True))
    return cases + be + session_cases(tier, pal)


# ------------------------------------------------------- building and oracle
def build(c):
    """-> (object to export, components kwarg, expected [(name, kind, values or (values, mask))])"""
    from glue.core import Data, DataCollection
    from glue.core.subset import MaskSubsetState
    pal, names = PALETTES[c['pal']], NAMES[c['pal']]
    d = Data(label='t')
    cols = []
    if c['kind'] == 'table':
        shape = (c['nrow'],)
        for k in c['cols']:
            cols.append((names[k], k, np.array(pal[k][:c['nrow']])))
    else:
        shape = tuple(c['shape'])
        size = int(np.prod(shape))
        for j, k in enumerate(c['cols']):
            vals = np.array(pal[k])
            cols.append((names[k], k, np.roll(np.resize(vals, size), -j).reshape(shape)))
    if c.get('uni'):
        cols = [(name, k, np.array(UNI[:len(v)]) if k == 's' else v) for name, k, v in cols]
    if c.get('be'):
        cols = [(name, k, v.astype(v.dtype.newbyteorder('>')) if v.dtype.kind in 'fi' else v) for name, k, v in cols]
    if c.get('f32'):
        cols = [(name, k, v.astype('float32') if v.dtype.kind == 'f' else v) for name, k, v in cols]
    for name, k, v in cols:
        d.add_component(v.copy(), name)
        if c.get('jitter') and k == 's':
            np.random.seed(20260101)        # jitter draws from numpy's global generator: owned by the harness
            d.get_component(d.id[name]).jitter('uniform')
    if c.get('derived'):
        name, k, v = [x for x in cols if x[1] in 'fin'][0]
        d[DERIVED] = d.id[name] * 2
        cols.append((DERIVED, k, v * 2))
    obj, mask = d, None
    if c['sel'] != 'whole':
        mask = np.array(c['sel'], dtype=bool).reshape(shape)
        dc = DataCollection([d])
        dc.new_subset_group('sel', MaskSubsetState(mask, d.pixel_component_ids))
        obj = d.subsets[0]
        obj._keep_alive = dc
    comps = None
    if c.get('components') is not None:
        cols = [cols[j] for j in c['components']]
        comps = [d.id[name] for name, k, v in cols]
    expected = []
    for name, k, v in cols:
        if c.get('uni') and k == 's' and c['fmt'] == 'hdf5-table':
            v = np.array([x.encode('ascii', 'replace').decode('ascii') for x in v.tolist()])
        if c['fmt'] == 'gridded-fits':
            name = name.upper()      # FITS extension names are case-insensitive; astropy stores upper case
        if c['kind'] == 'table':
            expected.append((name, k, v if mask is None else v[mask]))
        else:
            expected.append((name, k, (v, mask)))
    return obj, comps, expected


def text_list(a):
    return [x.decode('ascii', 'replace') if isinstance(x, bytes) else str(x) for x in np.asarray(a).ravel().tolist()]


def same_numbers(kind, want, got):
    """dtype-appropriate equality: floats equal with NaN == NaN; integers exactly equal (an integer
    column may come back in any integer or float type as long as every value is exactly the same)."""
    got = np.asarray(got)
    want = np.asarray(want)
    if got.shape != want.shape:
        return False
    if got.dtype.kind not in 'iuf':
        return False
    if kind in 'fn':
        g = got.astype(float)
        return bool(np.all((g == want) | (np.isnan(g) & np.isnan(want))))
    if got.dtype.kind == 'f':
        if not np.all(np.isfinite(got)):
            return False
        return [int(x) for x in got.ravel().tolist()] == [int(x) for x in want.ravel().tolist()] and \
            bool(np.all(got == np.floor(got)))
    return [int(x) for x in got.ravel().tolist()] == [int(x) for x in want.ravel().tolist()]


def image_ok(fmt, kind, want, mask, got):
    """selected pixels keep their value; the others carry the format's blank marker."""
    got = np.asarray(got)
    if got.shape != want.shape or got.dtype.kind not in 'iuf':
        return False
    if mask is None:
        return same_numbers(kind, want, got)
    if not same_numbers(kind, want[mask], got[mask]):
        return False
    rest = got[~mask]
    if kind == 'f':
        return bool(np.all(np.isnan(rest.astype(float))))
    if fmt == 'hdf5-image':
        return bool(np.all(rest == 0))
    blank = np.iinfo(want.dtype).min       # FITS: BLANK keyword; astropy turns BLANK pixels into NaN
    return bool(np.all(np.isnan(rest.astype(float)) | (rest == blank)))


def observe(back):
    from glue.core.data import BaseData
    ds = back if isinstance(back, list) else [back]
    out = []
    for x in ds:
        if not isinstance(x, BaseData):
            raise core.EngineError('load_data returned %r' % (x,))
        for cid in x.main_components:
            out.append((cid.label, np.asarray(x[cid]), x.shape))
    return ds, out


def fmt_key(c):
    return c['fmt'] if c.get('loader', 'auto') == 'auto' else '%s/%s' % (c['fmt'], c['loader'])


def compare(c, expected, back):
    """-> list of (clause, key, observed, expected)"""
    fk, sc = fmt_key(c), sel_class(c['sel'])
    ds, got = observe(back)
    want_names = [e[0] for e in expected]
    if not ds:
        return [('dataset-loaded', '%s|%s|no-dataset-loaded' % (fk, sc), 'load_data returned []',
                 'one dataset with components %s' % want_names)]
    if c['fmt'] != 'gridded-fits' and len(ds) != 1:
        return [('dataset-loaded', '%s|%s|%d-datasets-loaded' % (fk, sc, len(ds)), [x.label for x in ds],
                 'one dataset')]
    got_names = [g[0] for g in got]
    if sorted(got_names) != sorted(want_names):
        return [('names', '%s|component-names' % fk, got_names, want_names)]
    out = []
    if got_names != want_names:
        # report the order once and still compare every component's values by name
        out.append(('order', '%s|component-order' % fk, got_names, want_names))
        got = [got[got_names.index(n)] for n in want_names]
    for (name, kind, want), (gname, gv, gshape) in zip(expected, got):
        if c['kind'] == 'table':
            if tuple(gshape) != want.shape or gv.shape != want.shape:
                out.append(('rows', '%s|%s|row-count' % (fk, sc), list(gv.shape), list(want.shape)))
                break
            if want.size == 0:
                continue
            if kind == 's':
                ok = text_list(gv) == want.tolist()
            else:
                ok = same_numbers(kind, want, gv)
            if not ok:
                out.append(('values', '%s|%s|values|%s' % (fk, sc, kind),
                            {name: gv.tolist() if kind != 's' else text_list(gv)}, {name: want.tolist()}))
        else:
            v, mask = want
            if not image_ok(c['fmt'], kind, v, mask, gv):
                out.append(('pixels', '%s|%s|pixels|%s' % (fk, sc, kind), {name: gv.tolist()},
                            {name: v.tolist(), 'selected': None if mask is None else mask.astype(int).tolist()}))
    return out


def run_inner(c, tmp, tag):
    """export + load one table/image case -> (violations, back, path)"""
    obj, comps, expected = build(c)
    path = os.path.join(tmp, '%s.%s' % (tag, EXT[c['fmt']]))
    fk, sc = fmt_key(c), sel_class(c['sel'])
    try:
        if comps is None:
            exporter(c['fmt'])(path, obj)
        else:
            exporter(c['fmt'])(path, obj, components=comps)
    except Exception as e:
        return [('export', '%s|%s|export-%s' % (fk, sc, type(e).__name__), repr(e), 'file written')], None, path
    try:
        back = load(path, c.get('loader', 'auto'))
    except Exception as e:
        return [('load', '%s|%s|load-%s' % (fk, sc, type(e).__name__), repr(e), 'dataset')], None, path
    return compare(c, expected, back), back, path


def run_session(c, tmp, tag):
    from glue.core import DataCollection
    from glue.core.state import GlueSerializer, GlueUnSerializer
    inner = c['inner']
    viol, back, path = run_inner(inner, tmp, tag)
    fk = 'session|' + fmt_key(inner)
    if back is None or (isinstance(back, list) and not back):
        return None         # the direct load already fails; reported by the table/image case
    first = back if isinstance(back, list) else [back]
    if c.get('split'):
        fk += '|split'
        first = split_load(path, inner['fmt'])
        first = first if isinstance(first, list) else [first]
    dc = DataCollection(first)
    try:
        text = GlueSerializer(dc).dumps()
    except Exception as e:
        return [('session-save', '%s|save-%s' % (fk, type(e).__name__), repr(e), 'session text')]
    if 'LoadLog' not in text:
        raise core.EngineError('session was not saved by reference: %s' % text[:300])
    try:
        dc2 = GlueUnSerializer.loads(text).object('__main__')
    except Exception as e:
        return [('session-load', '%s|load-%s' % (fk, type(e).__name__), repr(e), 'collection')]
    out = []
    a = [(x.label, [(cid.label, np.asarray(x[cid])) for cid in x.main_components]) for x in first]
    b = [(x.label, [(cid.label, np.asarray(x[cid])) for cid in x.main_components]) for x in dc2]
    if [(l, [n for n, v in cs]) for l, cs in a] != [(l, [n for n, v in cs]) for l, cs in b]:
        return [('session-structure', '%s|structure' % fk, [(l, [n for n, v in cs]) for l, cs in b],
                 [(l, [n for n, v in cs]) for l, cs in a])]
    for (l, cs1), (_, cs2) in zip(a, b):
        for (n, v1), (_, v2) in zip(cs1, cs2):
            if v1.dtype.kind in 'iuf':
                ok = v2.dtype.kind in 'iuf' and v1.shape == v2.shape and \
                    bool(np.all((v1 == v2) | (np.isnan(v1.astype(float)) & np.isnan(v2.astype(float)))))
            else:
                ok = v1.shape == v2.shape and text_list(v1) == text_list(v2)
            if not ok:
                out.append(('session-values', '%s|values' % fk, {n: v2.tolist()}, {n: v1.tolist()}))
    return out


def do_case(res, c, tmp, tag):
    if c['kind'] == 'session':
        viol = run_session(c, tmp, tag)
        inner = c['inner']
        if viol is None:
            res.case()
            res.count('session_cases_skipped_direct_load_failed')
            return
        res.case(sig=('session', core.jdump(inner, sort_keys=True)), sample=c)
        res.count('cases_session')
    else:
        viol, back, path = run_inner(c, tmp, tag)
        trivial = sel_class(c['sel']) == 'empty-selection' and c['kind'] == 'table'
        res.case(sig=None if trivial else core.jdump(c, sort_keys=True), sample=c)
        res.count('cases_%s' % c['kind'])
        res.count('files_written')
    for clause, key, obs, exp in viol:
        res.violation(clause, key, c, obs, exp)
    for f in os.listdir(tmp):
        try:
            os.remove(os.path.join(tmp, f))
        except OSError:
            pass


# ------------------------------------------------------------------------ main
def scratch(root=None):
    return tempfile.mkdtemp(prefix='w%d-' % os.getpid(), dir=root) if root else \
        tempfile.mkdtemp(prefix='verif-c19-', dir='/dev/shm')


def work(shard):
    tier, root, cases = shard
    core.bind()
    res = core.Result()
    tmp = scratch(root)
    try:
        for n, c in enumerate(cases):
            core.reset_globals()
            do_case(res, c, tmp, 't%d' % n)
    finally:
        shutil.rmtree(tmp, ignore_errors=True)
    return res


RULE = ('complete product: every ordered arrangement of the column kinds {float+NaN, int, text} x with/without a '
        'derived (arithmetic) column x row counts x {whole dataset, every/selected row masks} x {CSV, FITS table '
        '(auto factory and the registered "FITS table" factory), VOTable, HDF5} [thorough: x every components= '
        'sub-list]; images: shapes x component arrangements of {float, int} x {whole, pixel masks} x {gridded FITS, '
        'HDF5}; sessions saved by reference for each format.  non-trivial = at least one row / the image is '
        'actually written, read back and compared value by value (empty table selections count as trivial)')


def run(tier):
    t0 = time.time()
    cases = core.rotate(all_cases(tier))
    root = tempfile.mkdtemp(prefix='verif-c19-', dir='/dev/shm')
    try:
        total = core.run_shards(work, [(tier, root, s) for s in core.split(cases, core.jobs() * 4)])
    finally:
        shutil.rmtree(root, ignore_errors=True)
    pal = core.seed() % len(PALETTES)
    dims = dict(table_cases=len(table_cases(tier, pal)), image_cases=len(image_cases(tier, pal)),
                session_cases=len(session_cases(tier, pal)), column_arrangements=len(arrangements(tier)),
                table_formats=TABLE_FMTS, image_formats=IMAGE_FMTS,
                rows=[1, 3] if tier == 'quick' else [1, 2, 3, 4], palette=pal)
    return core.finish(
        PROP, tier, total, 'exploration', RULE, t0, coverage=dict(product_dimensions=dims), confirm=confirm,
        assumptions=[
            'files are read back with load_data(path) (the factory glue picks itself); for FITS tables also with '
            'the registered "FITS table" factory',
            'ASCII text without leading/trailing blanks, not parseable as numbers, non-empty; names [A-Za-z0-9_] '
            'starting with a letter; gridded FITS names are compared in upper case (EXTNAME is case-insensitive)',
            'integer columns may come back in any numeric dtype as long as every value is exactly equal',
            'image pixels outside the selection must carry the exporter\'s blank marker (NaN for float; BLANK/NaN '
            'for integer FITS; 0 for integer HDF5); only float/int image components (text images excluded)',
            'IPAC and LaTeX exporters have no matching auto-detected reader here and are excluded',
            'sessions are saved with absolute paths and reloaded while the files still exist; equality is to the '
            'values of the first load',
            'tables <= 4 rows, images <= 8 pixels'])


def confirm(v):
    core.bind()
    tmp = scratch()
    res = core.Result()
    try:
        core.reset_globals()
        do_case(res, v['case'], tmp, 'r0')
    finally:
        shutil.rmtree(tmp, ignore_errors=True)
    hit = [x for x in res.violations if x['key'] == v['key']]
    return bool(hit)


def replay(doc):
    core.bind()
    tmp = scratch()
    res = core.Result()
    try:
        core.reset_globals()
        do_case(res, doc['case'], tmp, 'r0')
    finally:
        shutil.rmtree(tmp, ignore_errors=True)
    print('  case', core.jdump(doc['case']))
    for x in res.violations:
        print('  violated %s key=%s\n    observed %s\n    expected %s'
              % (x['clause'], x['key'], core._clip(x['observed']), core._clip(x['expected'])))
    return any(x['key'] == doc['key'] for x in res.violations)
