"""C11 - key joins propagate selections by key membership (Mode I, complete products).

A *world* is a small join graph of real `Data` objects (2-4 tables of 1-4 rows) whose key
columns are built from explicit value lists and storage dtypes; joins are registered with
`Data.join_on_key` (either side) or a `JoinLink` in a `DataCollection`.  A *query* is
`target.get_mask(selection evaluable only on source, view)`.  The oracle propagates the selected
row set along the (unique / consistent) join path with Python tuples and sets, i.e. by value.

Families (each a complete Cartesian product, see `families()`):
  tables   every key table over a small alphabet, per join shape (1-1, n-n, 1-n, n-1), x every
           selected-row subset x both directions x view alphabet
  dtypes   small tables x every storage-dtype configuration of the key columns
           (int64/int32, float64/float32, +0.0/-0.0, natural / padded string widths)
  reg      registration route (L.join_on_key, R.join_on_key, JoinLink) x selection kind
  shape2d  2-d tables and tuple views
  chain    A-B-C with every pair of join shapes; every table
  tree     3/4-node trees, every registration order, every ordered (target, source) pair
           (dead-end branches before / after the productive one)
  cycle    C3, C4, lollipop, diamond, K4: unevaluable selection -> IncompatibleAttribute from
           every node (RecursionError / time guard -> violation); then, on the same objects,
           an evaluable selection over consistent (bijective) keys must still propagate.
"""
import sys
import time
import signal
import itertools
import contextlib

import numpy as np

from mc import core

PROP = 'C11'

# value palettes (chosen by VERIF_SEED % 3); same structure in all of them:
#   int   three distinct values that fit int32
#   float letter 1 is zero (so that 2-letter tables contain it), all exactly representable in float32
#   str   letter 1 is the widest string (so that natural widths differ between columns) and letters 0 and 2 are
#         PREFIXES of it (a comparison after truncation to the narrower column's width would match them)
PALETTES = {
    'int': [[1, 2, 3], [0, -1, 7], [5, 256, 65536]],
    'float': [[1.0, 0.0, 2.5], [-1.5, 0.0, 0.25], [3.0, 0.0, 0.5]],
    'str': [['a', 'aab', 'aa'], ['x', 'xyz', 'xy'], ['b', 'abc', 'ab']],
}

# column configurations: kind, dtype of the left column, dtype of the right column, right zeros negative
CFG = {
    'i64': ('int', 'int64', 'int64', False),
    'i64/32': ('int', 'int64', 'int32', False),
    'i32/64': ('int', 'int32', 'int64', False),
    'f64': ('float', 'float64', 'float64', False),
    'f64/32': ('float', 'float64', 'float32', False),
    'f64-0': ('float', 'float64', 'float64', True),
    'str': ('str', 'nat', 'nat', False),
    'str/U5': ('str', 'nat', 'U5', False),
}
NCOLS = {'1-1': (1, 1), 'n-n': (2, 2), '1-n': (1, 2), 'n-1': (2, 1), '3-3': (3, 3)}


class Hang(BaseException):
    pass


RECURSION_LIMIT = 400      # a legitimate evaluation over <= 4 tables nests < 100 frames


@contextlib.contextmanager
def guard(sec=20.0):
    """Turn non-termination into an exception: unbounded recursion -> RecursionError (reached
    quickly because of the lowered limit), anything else -> Hang after `sec` seconds."""
    def handler(signum, frame):
        raise Hang()
    old = signal.signal(signal.SIGALRM, handler)
    old_limit = sys.getrecursionlimit()
    signal.setitimer(signal.ITIMER_REAL, sec)
    sys.setrecursionlimit(RECURSION_LIMIT)
    try:
        yield
    finally:
        sys.setrecursionlimit(old_limit)
        signal.setitimer(signal.ITIMER_REAL, 0)
        signal.signal(signal.SIGALRM, old)


# ----------------------------------------------------------------------------- views
def dec_view(v):
    if v is None:
        return None
    if isinstance(v, int):
        return v
    tag = v[0]
    if tag == 's':
        return slice(v[1], v[2], v[3])
    if tag == 't':
        return tuple(dec_view(x) for x in v[1])
    if tag == 'i':
        return np.array(v[1], dtype=int)
    raise core.EngineError('bad view %r' % (v,))


def views_1d(n, full):
    out = [None, ['t', [['s', 1, None, None]]]]
    if full:
        out += [['s', None, None, 2], ['i', [n - 1, 0, 0]], ['s', 0, 0, None]]
    return out


def views_2d():
    return [None, ['t', [0]], ['t', [['s', None, None, None], ['s', -1, None, None]]],
            ['t', [['s', 0, 1, None], ['s', None, None, None]]]]


def views_for(shape, full):
    return views_1d(shape[0], full) if len(shape) == 1 else views_2d()


# ----------------------------------------------------------------------------- worlds
def column(kind, letters, dt, pal, negzero=False):
    vals = [PALETTES[kind][pal][l] for l in letters]
    if negzero:
        vals = [-0.0 if (kind == 'float' and v == 0.0) else v for v in vals]
    if dt == 'nat':
        dt = {'int': 'int64', 'float': 'float64'}.get(kind) or 'U%d' % max(len(v) for v in vals)
    return dict(v=vals, dt=dt, kind=kind)


def build(world):
    """Real objects for a world descriptor -> {name: Data}"""
    from glue.core import Data, DataCollection
    from glue.core.link_helpers import JoinLink
    datas = {}
    for name, nd in world['nodes'].items():
        d = Data(label=name)
        shape = tuple(nd['shape'])
        for cname, c in nd['cols'].items():
            d.add_component(np.array(c['v'], dtype=c['dt']).reshape(shape), cname)
        d.add_component(np.zeros(shape), '_flag')
        datas[name] = d
    dc = None
    for a, ca, b, cb, how in world['edges']:
        if how == 'fwd':
            datas[a].join_on_key(datas[b], ca[0] if len(ca) == 1 else tuple(ca),
                                 cb[0] if len(cb) == 1 else tuple(cb))
        elif how == 'rev':
            datas[b].join_on_key(datas[a], cb[0] if len(cb) == 1 else tuple(cb),
                                 ca[0] if len(ca) == 1 else tuple(ca))
        elif how == 'link':
            if dc is None:
                dc = DataCollection(list(datas.values()))
                datas['_dc'] = dc
            dc.add_link(JoinLink(cids1=[datas[a].id[ca[0]]], cids2=[datas[b].id[cb[0]]],
                                 data1=datas[a], data2=datas[b]))
        else:
            raise core.EngineError('bad edge %r' % (how,))
    if world['queries'].get('uneval'):
        # a dataset joined to nothing: its attributes cannot be evaluated anywhere in the graph
        datas['_Z'] = Data(label='Z', q=[1.0, 2.0])
    return datas


def rejoin(datas, edges):
    """Join the same pair of tables again (other columns, other shape, other direction): the join registered
    last replaces the earlier one on both tables."""
    for a, ca, b, cb, how in edges:
        one = lambda c: c[0] if len(c) == 1 else tuple(c)
        if how == 'fwd':
            datas[a].join_on_key(datas[b], one(ca), one(cb))
        elif how == 'rev':
            datas[b].join_on_key(datas[a], one(cb), one(ca))
        else:
            raise core.EngineError('bad rejoin edge %r' % (how,))


def make_state(datas, world, q):
    """worlds with queries['reuse_states']: one state object per (table, kind, rows), kept for the life of the
    objects, as a subset group keeps its state while the user changes the joins."""
    if world['queries'].get('reuse_states') and q['sel'] in ('elem', 'mask'):
        key = (q['s'], q['sel'], tuple(q['rows']))
        states = datas.setdefault('_states', {})
        if key not in states:
            states[key] = _make_state(datas, world, q)
        return states[key]
    return _make_state(datas, world, q)


def _make_state(datas, world, q):
    from glue.core.subset import ElementSubsetState, MaskSubsetState
    sel = q['sel']
    if sel == 'uneval-ineq':
        return datas['_Z'].id['q'] > 0
    if sel == 'uneval-elem':
        return ElementSubsetState([0], data=datas['_Z'])
    src = datas[q['s']]
    shape = tuple(world['nodes'][q['s']]['shape'])
    flags = np.zeros(int(np.prod(shape)))
    flags[list(q['rows'])] = 1
    if sel == 'flag':
        src.update_components({src.id['_flag']: flags.reshape(shape)})
        return src.id['_flag'] > 0.5
    if sel == 'elem':
        return ElementSubsetState([int(r) for r in q['rows']], data=src)
    if sel == 'mask':
        return MaskSubsetState(flags.reshape(shape) > 0.5, src.pixel_component_ids)
    if sel == 'elem-copy':
        # what every combination, inversion and edit mode holds: a COPY of the row-number selection
        return ElementSubsetState([int(r) for r in q['rows']], data=src).copy()
    if sel == 'elem-not-not':
        return ~(~ElementSubsetState([int(r) for r in q['rows']], data=src))
    if sel == 'elem-or':
        rows = [int(r) for r in q['rows']]
        return ElementSubsetState(rows[:1], data=src) | ElementSubsetState(rows[1:], data=src)
    if sel in ('and', 'xor', 'or', 'andnot'):
        # a composite of two selections that are both defined on the source table: the rows it selects THERE are
        # what crosses the join (q['rows'] = the combination of q['a'] and q['b'], computed by queries())
        fa = np.zeros(int(np.prod(shape)), dtype=bool)
        fa[list(q['a'])] = True
        sa = MaskSubsetState(fa.reshape(shape), src.pixel_component_ids)
        sb = ElementSubsetState([int(r) for r in q['b']], data=src)
        return {'and': lambda: sa & sb, 'xor': lambda: sa ^ sb, 'or': lambda: sa | sb,
                'andnot': lambda: sa & ~sb}[sel]()
    raise core.EngineError('bad selection kind %r' % (sel,))


# ----------------------------------------------------------------------------- oracle
def row_keys(world, name, cols):
    c = world['nodes'][name]['cols']
    n = len(c[cols[0]]['v'])
    return [tuple(c[k]['v'][i] for k in cols) for i in range(n)]


def hop(world, dst, cdst, src, csrc, rows):
    """Rows of dst selected by `rows` of src through one join - the property's definition."""
    kd = row_keys(world, dst, cdst)
    ks = [k for i, k in enumerate(row_keys(world, src, csrc)) if i in rows]
    if len(cdst) == len(csrc):
        chosen = set(ks)                                    # single value / tuple of values
        return {i for i, k in enumerate(kd) if k in chosen}
    chosen = set(x for k in ks for x in k)                  # any of several values
    return {i for i, k in enumerate(kd) if any(x in chosen for x in k)}


def neighbours(world, name):
    for a, ca, b, cb, how in world['edges']:
        if a == name:
            yield b, ca, cb
        elif b == name:
            yield a, cb, ca


def expected_rows(world, target, source, rows):
    """Composition along every simple join path source -> target; all paths must agree
    (trees have one path; cyclic worlds are generated with consistent keys)."""
    answers = []

    def walk(node, sel, seen):
        if node == target:
            answers.append(frozenset(sel))
            return
        for other, cn, co in neighbours(world, node):
            if other not in seen:
                walk(other, hop(world, other, co, node, cn, sel), seen | {other})
    walk(source, set(rows), {source})
    if not answers or any(a != answers[0] for a in answers):
        raise core.EngineError('oracle: join paths disagree in generated world %r' % (world,))
    return answers[0]


def expected_mask(world, q):
    shape = tuple(world['nodes'][q['t']]['shape'])
    rows = expected_rows(world, q['t'], q['s'], q['rows'])
    full = np.zeros(int(np.prod(shape)), dtype=bool)
    full[sorted(rows)] = True
    full = full.reshape(shape)
    v = dec_view(q['view'])
    return full, (full if v is None else full[v])


# ----------------------------------------------------------------------------- class signature
def signature(world):
    if world.get('_sig') is None:
        world['_sig'] = _signature(world)
    return world['_sig']


def _signature(world):
    shapes, kinds, dts, negzero = set(), set(), set(), False
    for a, ca, b, cb, how in world['edges']:
        na, nb = world['nodes'][a]['cols'], world['nodes'][b]['cols']
        shapes.add('%s-%s' % ('1' if len(ca) == 1 else 'n', '1' if len(cb) == 1 else 'n'))
        pairs = list(zip(ca, cb)) if len(ca) == len(cb) else [(x, y) for x in ca for y in cb]
        for x, y in pairs:
            cx, cy = na[x], nb[y]
            kinds.add(cx['kind'])
            kinds.add(cy['kind'])
            if cx['dt'] == cy['dt']:
                dts.add('same-dtype')
            else:
                dts.add('%s-%s-differs' % (cx['kind'], 'width' if cx['kind'] == 'str' else 'size'))
            if cx['kind'] == 'float':
                zx = {np.copysign(1.0, v) for v in cx['v'] if v == 0.0}
                zy = {np.copysign(1.0, v) for v in cy['v'] if v == 0.0}
                if zx and zy and (zx != zy or len(zx) > 1):
                    negzero = True
    sig = '%s|%s|%s' % ('+'.join(sorted(shapes)), '+'.join(sorted(kinds)), '+'.join(sorted(dts)))
    return sig + ('|signed-zero' if negzero else '')


# ----------------------------------------------------------------------------- one evaluation
def current(world, q):
    """the world as the oracle must see it at query q: the joins in place are those of q's phase"""
    if 'edges' in q:
        return dict(world, edges=q['edges'], _sig=None) if q['edges'] != world['edges'] else world
    return world


def evaluate(datas, world, q):
    """-> ('mask', array) | ('incompatible',) | ('raises', type name, repr) | ('nonterm', what)"""
    from glue.core.exceptions import IncompatibleAttribute
    if 'edges' in q and datas.get('_edges', world['edges']) != q['edges']:
        rejoin(datas, q['edges'])
        datas['_edges'] = q['edges']
    state = make_state(datas, world, q)
    try:
        with guard():
            m = datas[q['t']].get_mask(state, view=dec_view(q['view']))
        return ('mask', np.asarray(m))
    except IncompatibleAttribute:
        return ('incompatible',)
    except RecursionError:
        return ('nonterm', 'RecursionError')
    except Hang:
        return ('nonterm', 'no answer within the time guard')
    except Exception as e:
        return ('raises', type(e).__name__, repr(e))


def judge(world, q, out):
    """-> (bad, nontrivial): bad is None if the property holds for this evaluation, else
    (clause, key, observed, expected)"""
    world = current(world, q)
    sig = signature(world)
    fam = world.get('family', '')
    topo = 'cycle' if fam == 'cycle' else ('chain' if len(world['nodes']) > 2 else 'pair')
    if q['sel'].startswith('uneval'):
        if out[0] == 'incompatible':
            return None, True
        if out[0] == 'nonterm':
            return ('cycle-terminates', 'nonterm|%s|%s' % (topo, out[1].split()[0]), out[1],
                    'IncompatibleAttribute'), True
        obs = out[1].tolist() if out[0] == 'mask' else list(out[1:])
        return ('cycle-incompatible', 'unevaluable|%s|%s' % (topo, out[0] if out[0] == 'mask' else out[1]),
                obs, 'IncompatibleAttribute'), True
    full, exp = expected_mask(world, q)
    nontrivial = bool(full.any())
    if out[0] == 'mask':
        m = out[1]
        if m.shape == exp.shape and m.dtype == bool and np.array_equal(m, exp):
            return None, nontrivial
        what = 'mask' if m.shape == exp.shape else 'mask-shape'
        bad = ('join-mask', '%s|%s|%s' % (what, topo, sig),
               dict(shape=list(m.shape), dtype=str(m.dtype), mask=m.tolist()),
               dict(shape=list(exp.shape), mask=exp.tolist()))
    elif out[0] == 'incompatible':
        bad = ('join-mask', 'incompatible|%s|%s' % (topo, sig), 'IncompatibleAttribute',
               dict(mask=exp.tolist()))
    elif out[0] == 'nonterm':
        bad = ('join-terminates', 'nonterm|%s|%s' % (topo, out[1].split()[0]), out[1],
               dict(mask=exp.tolist()))
    else:
        bad = ('join-mask', 'raises|%s|%s|%s' % (topo, sig, out[1]), out[2], dict(mask=exp.tolist()))
    return bad, nontrivial


# ----------------------------------------------------------------------------- queries of a world
def queries(world):
    qs = world['queries']
    nodes = world['nodes']
    out = []
    for sel in qs.get('uneval', []):
        for t in nodes:
            out.append(dict(t=t, s=None, rows=[], sel=sel, view=None))
    for t, s in qs['pairs']:
        n = len(next(iter(nodes[s]['cols'].values()))['v'])
        vs = views_for(nodes[t]['shape'], qs.get('views') == 'full') if qs.get('views') != 'none' else [None]
        for sel in qs['sels']:
            if 'rowsets' in qs:        # explicit selected-row sets (tables too long for all 2**n subsets)
                rowsets = qs['rowsets'][s]
            else:
                rowsets = [[i for i in range(n) if bits >> i & 1] for bits in range(2 ** n)]
            if sel in ('and', 'xor', 'or', 'andnot'):
                for a in rowsets:
                    for b in rowsets:
                        sa, sb = set(a), set(b)
                        rows = sorted({'and': sa & sb, 'xor': sa ^ sb, 'or': sa | sb, 'andnot': sa - sb}[sel])
                        for v in vs:
                            out.append(dict(t=t, s=s, rows=rows, a=a, b=b, sel=sel, view=v))
                continue
            for rows in rowsets:
                for v in vs:
                    out.append(dict(t=t, s=s, rows=rows, sel=sel, view=v))
    if 'phases' in qs:
        # the same queries once per phase; every query names the joins in place when it is asked, and the real
        # objects are re-joined when the joins named differ from those in place
        out = [dict(q, edges=edges) for edges in qs['phases'] for q in out]
    return out


_recorded = {}     # per worker process: base key -> number of violations examined in detail


def run_world(res, world):
    """Execute every query of the world on one set of real objects.  Worlds are independent
    executions (reset_globals + fresh objects); the queries of one world run on the same
    objects, so a violation may depend on the earlier queries: the recorded case carries the
    minimal prefix of earlier queries needed to reproduce it on fresh objects (key suffix
    '|stateful' when that prefix is not empty).  Returns False if the world was abandoned
    because an evaluation did not terminate."""
    core.reset_globals()
    datas = build(world)
    gid = world['gid']
    done = []
    pure = {k: v for k, v in world.items() if not k.startswith('_')}
    for qi, q in enumerate(queries(world)):
        out = evaluate(datas, world, q)
        bad, nontrivial = judge(world, q, out)
        res.case(sig=hash((gid, qi)) if nontrivial else None,
                 sample=dict(family=world.get('family'), edges=world['edges'], query=q) if qi == 7 else None)
        res.count('evals_' + world.get('family', '?'))
        if bad is None:
            done.append(q)
            continue
        clause, key, obs, exp = bad
        if _recorded.get(key, 0) >= 6:
            res.viol_count += 1
            res.count('violations_elided')
        else:
            _recorded[key] = _recorded.get(key, 0) + 1
            prefix = minimal_prefix(pure, done, q, key)
            case = dict(world=pure, prefix=prefix, query=q)
            res.violation(clause, key + ('|stateful' if prefix else ''), case, obs, exp)
        core.reset_globals()
        datas = build(world)
        done = []
        if out[0] == 'nonterm':
            res.count('worlds_abandoned_after_nontermination')
            return False
    return True


def recheck(case):
    """Fresh objects, the stored prefix of earlier queries, then the query -> (outcome, bad)"""
    core.bind()
    core.reset_globals()
    world, q = case['world'], case['query']
    datas = build(world)
    for p in case.get('prefix') or []:
        evaluate(datas, world, p)
    out = evaluate(datas, world, q)
    return out, judge(world, q, out)[0]


def minimal_prefix(world, done, q, key):
    def repro(prefix):
        out, bad = recheck(dict(world=world, prefix=prefix, query=q))
        return bad is not None and bad[1] == key
    if repro([]):
        return []
    prefix = list(done)
    if not repro(prefix):
        raise core.EngineError('ENGINE-NONDETERMINISM: %s not reproduced on fresh objects with the same '
                               'queries: %r' % (key, dict(world=world, prefix=prefix, query=q)))
    if repro(prefix[-1:]):
        return prefix[-1:]
    i = len(prefix) - 1
    while i >= 0:
        cand = prefix[:i] + prefix[i + 1:]
        if repro(cand):
            prefix = cand
        i -= 1
    return prefix


# ----------------------------------------------------------------------------- families
def tables(ncol, nrow, letters):
    """every table: tuple of ncol columns, each a tuple of nrow letters"""
    for flat in itertools.product(range(letters), repeat=ncol * nrow):
        yield [list(flat[c * nrow:(c + 1) * nrow]) for c in range(ncol)]


def pair_world(fam, shape, cfgs, lt, rt, pal, reg='fwd', lshape=None, rshape=None, qs=None):
    ncl, ncr = NCOLS[shape]
    lcols, rcols = {}, {}
    for i in range(ncl):
        kind, dl, dr, nz = CFG[cfgs[min(i, len(cfgs) - 1)]]
        lcols['k%d' % i] = column(kind, lt[i], dl, pal)
    for i in range(ncr):
        kind, dl, dr, nz = CFG[cfgs[min(i, len(cfgs) - 1)]]
        rcols['k%d' % i] = column(kind, rt[i], dr, pal, nz)
    w = dict(family=fam,
             nodes=dict(L=dict(shape=lshape or [len(lt[0])], cols=lcols),
                        R=dict(shape=rshape or [len(rt[0])], cols=rcols)),
             edges=[['L', sorted(lcols), 'R', sorted(rcols), reg]],
             queries=qs or dict(pairs=[['L', 'R'], ['R', 'L']], sels=['flag'], views='full'))
    return w


def fam_large(spec, pal):
    """Longer key columns with many duplicates: numpy's membership tests switch algorithm with the sizes of
    their arguments, so the by-value clause is also checked beyond the tiny tables (a few explicit row sets
    instead of all subsets)."""
    _, kind = spec
    nl, nr = 40, 30
    if kind == 'float':
        vals, dt = [0.5 * k + 0.25 for k in range(nr)], 'float64'
    elif kind == 'str':
        vals, dt = ['k%02d' % k for k in range(nr)], 'U3'
    else:
        vals, dt = [1000 * k + 7 for k in range(nr)], 'int64'
    lkeys = [vals[i % 20] for i in range(nl)]            # every key twice; keys 20..29 never occur on the left
    rkeys = list(vals)
    rowsets = dict(R=[list(range(nr)), list(range(18)), list(range(0, nr, 2)), [5], list(range(20, 30)), []],
                   L=[list(range(nl)), list(range(0, nl, 3)), [0, 20], list(range(10, 25)), []])
    yield dict(family='large',
               nodes=dict(L=dict(shape=[nl], cols=dict(k0=dict(v=lkeys, dt=dt, kind=kind))),
                          R=dict(shape=[nr], cols=dict(k0=dict(v=rkeys, dt=dt, kind=kind)))),
               edges=[['L', ['k0'], 'R', ['k0'], 'fwd']],
               queries=dict(pairs=[['L', 'R'], ['R', 'L']], sels=['flag'], views='none', rowsets=rowsets))


def fam_tables(spec, pal):
    _, shape, cfg, nl, nr, letters = spec
    ncl, ncr = NCOLS[shape]
    for lt in tables(ncl, nl, letters):
        for rt in tables(ncr, nr, letters):
            yield pair_world('tables', shape, [cfg], lt, rt, pal)


def fam_dtypes(spec, pal):
    _, shape, cfgs, nl, nr = spec
    ncl, ncr = NCOLS[shape]
    qs = dict(pairs=[['L', 'R'], ['R', 'L']], sels=['flag'], views='short')
    for lt in tables(ncl, nl, 2):
        for rt in tables(ncr, nr, 2):
            yield pair_world('dtypes', shape, list(cfgs), lt, rt, pal, qs=qs)


def fam_reg(spec, pal):
    _, shape, reg = spec
    ncl, ncr = NCOLS[shape]
    qs = dict(pairs=[['L', 'R'], ['R', 'L']], sels=['flag', 'elem', 'mask', 'elem-copy', 'elem-not-not', 'elem-or', 'and', 'xor', 'or', 'andnot'],
              views='short')
    for lt in tables(ncl, 2, 2):
        for rt in tables(ncr, 2, 2):
            yield pair_world('reg', shape, ['i64'], lt, rt, pal, reg=reg, qs=qs)


REJOIN = {'a': (['k0'], ['k0']), 'b': (['k1'], ['k1']), 'x': (['k0'], ['k1']), 'nn': (['k0', 'k1'], ['k0', 'k1']),
          '1n': (['k0'], ['k0', 'k1']), 'n1': (['k0', 'k1'], ['k0'])}


def fam_rejoin(spec, pal):
    """The same pair joined, queried, joined again on other columns / with another shape / from the other side,
    queried again with the SAME state objects, and joined back: the mask must follow the join in place.
    ('flag' selections change values, which legitimately empties every cache: they get worlds of their own so
    that the kept 'elem' / 'mask' state objects meet whatever was remembered under the earlier join.)"""
    _, first, second, reg2, nl, nr, sels = spec

    def edge(name, how):
        cl, cr = REJOIN[name]
        return ['L', cl, 'R', cr, how]
    phases = [[edge(first, 'fwd')], [edge(second, reg2)], [edge(first, 'fwd')]]
    qs = dict(pairs=[['L', 'R'], ['R', 'L']], sels=list(sels), views='none', reuse_states=True,
              phases=phases)
    for lt in tables(2, nl, 2):
        for rt in tables(2, nr, 2):
            w = pair_world('rejoin', 'n-n', ['i64'], lt, rt, pal, qs=qs)
            w['edges'] = phases[0]
            yield w


def fam_shape2d(spec, pal):
    _, shape, cfg, lshape, nr = spec
    ncl, ncr = NCOLS[shape]
    nl = lshape[0] * lshape[1]
    qs = dict(pairs=[['L', 'R'], ['R', 'L']], sels=['flag', 'mask'] if ncl * nl <= 4 else ['flag'], views='full')
    for lt in tables(ncl, nl, 2):
        for rt in tables(ncr, nr, 2):
            yield pair_world('shape2d', shape, [cfg], lt, rt, pal, lshape=list(lshape), qs=qs)


def fam_chain(spec, pal):
    """A -s1- B -s2- C; B has separate key columns for the two joins."""
    _, s1, s2, n, vmode = spec
    a_n, b1_n = NCOLS[s1]
    b2_n, c_n = NCOLS[s2]
    qs = dict(pairs=[['A', 'C'], ['C', 'A']], sels=['flag'], views=vmode)
    for at in tables(a_n, n, 2):
        for bt in tables(b1_n + b2_n, n, 2):
            for ct in tables(c_n, n, 2):
                A = {'k%d' % i: column('int', at[i], 'int64', pal) for i in range(a_n)}
                B = {'k%d' % i: column('int', bt[i], 'int64', pal) for i in range(b1_n)}
                B.update({'j%d' % i: column('int', bt[b1_n + i], 'int64', pal) for i in range(b2_n)})
                C = {'j%d' % i: column('int', ct[i], 'int64', pal) for i in range(c_n)}
                yield dict(family='chain',
                           nodes=dict(A=dict(shape=[n], cols=A), B=dict(shape=[n], cols=B),
                                      C=dict(shape=[n], cols=C)),
                           edges=[['A', sorted(A), 'B', ['k%d' % i for i in range(b1_n)], 'fwd'],
                                  ['B', ['j%d' % i for i in range(b2_n)], 'C', sorted(C), 'fwd']],
                           queries=qs)


TREES = {
    'chain3': (['A', 'B', 'C'], [('A', 'B'), ('B', 'C')]),
    'path4': (['A', 'B', 'C', 'D'], [('A', 'B'), ('B', 'C'), ('C', 'D')]),
    'star4': (['A', 'B', 'C', 'D'], [('A', 'B'), ('A', 'C'), ('A', 'D')]),
}
CYCLES = {
    'C3': (['A', 'B', 'C'], [('A', 'B'), ('B', 'C'), ('C', 'A')]),
    'C4': (['A', 'B', 'C', 'D'], [('A', 'B'), ('B', 'C'), ('C', 'D'), ('D', 'A')]),
    'lollipop': (['A', 'B', 'C', 'D'], [('A', 'B'), ('B', 'C'), ('C', 'A'), ('C', 'D')]),
    'diamond': (['A', 'B', 'C', 'D'], [('A', 'B'), ('B', 'C'), ('C', 'D'), ('D', 'A'), ('A', 'C')]),
    'K4': (['A', 'B', 'C', 'D'], [('A', 'B'), ('A', 'C'), ('A', 'D'), ('B', 'C'), ('B', 'D'), ('C', 'D')]),
}


def orient(edges, mode):
    return ['fwd' if (mode == 'fwd' or i % 2 == 0) else 'rev' for i in range(len(edges))]


def fam_tree(spec, pal):
    """One key column per node used for all its joins (1-1 shapes); every table, every
    registration order; every ordered (target, source) pair."""
    _, name, letters, fixA, orients = spec
    nodes, edges = TREES[name]
    pairs = [[t, s] for t in nodes for s in nodes if t != s]
    qs = dict(pairs=pairs, sels=['flag'], views='none')
    free = nodes[1:] if fixA else nodes
    for flat in itertools.product(range(letters), repeat=2 * len(free)):
        tab = {'A': [0, 1]} if fixA else {}
        for i, nm in enumerate(free):
            tab[nm] = list(flat[2 * i:2 * i + 2])
        nd = {nm: dict(shape=[2], cols={'k': column('int', tab[nm], 'int64', pal)}) for nm in nodes}
        for order in itertools.permutations(range(len(edges))):
            for om in orients:
                how = orient(edges, om)
                yield dict(family='tree', nodes=nd,
                           edges=[[edges[i][0], ['k'], edges[i][1], ['k'], how[i]] for i in order],
                           queries=qs)


PERMS = {'A': [0, 1, 2], 'B': [1, 2, 0], 'C': [2, 0, 1], 'D': [0, 2, 1]}


def fam_cycle(spec, pal):
    """Every node holds a permutation of the same three keys in column k and a second,
    consistently relabelled column j, so every join path gives the same answer."""
    _, name, order_mode, orients, shape_mode = spec
    nodes, edges = CYCLES[name]
    pairs = [[t, s] for t in nodes for s in nodes if t != s]
    qs = dict(pairs=pairs, sels=['flag'], views='none', uneval=['uneval-ineq', 'uneval-elem'])
    nd = {}
    for nm in nodes:
        p = PERMS[nm]
        nd[nm] = dict(shape=[3], cols={'k': column('int', p, 'int64', pal),
                                       'j': column('str', [(x + 1) % 3 for x in p], 'nat', pal)})
    ne = len(edges)
    if order_mode == 'all':
        orders = list(itertools.permutations(range(ne)))
    else:
        orders = [tuple(range(ne)[i:]) + tuple(range(ne)[:i]) for i in range(ne)]
    if shape_mode == 'uniform':
        shapesets = [['1-1'] * ne, ['n-n'] * ne]
    else:
        shapesets = [list(s) for s in itertools.product(['1-1', 'n-n'], repeat=ne)]
    for order in orders:
        for om in orients:
            how = orient(edges, om)
            for ss in shapesets:
                ed = []
                for i in order:
                    cols = ['k'] if ss[i] == '1-1' else ['j', 'k']
                    ed.append([edges[i][0], cols, edges[i][1], cols, how[i]])
                yield dict(family='cycle', nodes=nd, edges=ed, queries=qs)


FAMS = dict(large=fam_large, tables=fam_tables, dtypes=fam_dtypes, reg=fam_reg, shape2d=fam_shape2d, chain=fam_chain, rejoin=fam_rejoin,
            tree=fam_tree, cycle=fam_cycle)

ALLCFG = ['i64', 'i64/32', 'i32/64', 'f64', 'f64/32', 'f64-0', 'str', 'str/U5']
CHAIN_Q = [('1-1', '1-1'), ('n-n', '1-1'), ('1-1', 'n-n'), ('1-n', '1-1'), ('1-1', 'n-1'), ('n-1', '1-n')]


def families(tier):
    """List of family specs; thorough is a superset of quick."""
    t = tier == 'thorough'
    S = []
    # tables: every key table per join shape
    for cfg in ('i64', 'str', 'f64'):
        S.append(('tables', '1-1', cfg, 2, 3, 3))
    for shape in ('n-n', '1-n', 'n-1'):
        S.append(('tables', shape, 'i64', 2, 3, 2))
    S.append(('tables', 'n-n', 'str', 2, 2, 2))
    for kind in ('float', 'str', 'int'):
        S.append(('large', kind))
    # joins on three key columns (the combination of per-column codes has to stay injective)
    S.append(('tables', '3-3', 'i64', 2, 2, 2))
    if t:
        S.append(('tables', '3-3', 'i64', 3, 2, 2))
        S.append(('tables', '3-3', 'str', 2, 2, 2))
        for cfg in ('i64', 'str', 'f64'):
            S.append(('tables', '1-1', cfg, 3, 3, 3))
        S.append(('tables', '1-1', 'i64', 3, 4, 3))
        for shape in ('n-n', '1-n', 'n-1'):
            S.append(('tables', shape, 'i64', 3, 3, 2))
        S.append(('tables', 'n-n', 'str', 2, 3, 2))
        S.append(('tables', '1-n', 'i64', 2, 2, 3))
        S.append(('tables', 'n-1', 'i64', 2, 2, 3))
    # dtypes
    for shape in ('1-1', '1-n', 'n-1'):
        for c in ALLCFG:
            S.append(('dtypes', shape, (c,), 2, 2))
    second = ALLCFG if t else ['i64', 'str']
    for c1 in ALLCFG:
        for c2 in second:
            S.append(('dtypes', 'n-n', (c1, c2), 2, 2))
    if t:
        for c3 in ('i64', 'i64/32', 'str'):
            S.append(('dtypes', '3-3', ('i64', 'str', c3), 2, 2))
        for c in ALLCFG:
            S.append(('dtypes', '1-1', (c,), 3, 3))
    # registration route x selection kind
    for shape in ('1-1', 'n-n', '1-n', 'n-1'):
        for reg in ('fwd', 'rev') + (('link',) if shape == '1-1' else ()):
            S.append(('reg', shape, reg))
    # re-joining the same pair (state objects kept across the phases)
    for first, second in itertools.permutations(sorted(REJOIN), 2):
        for reg2 in ('fwd', 'rev'):
            if t or reg2 == 'fwd' or (first, second) in (('a', 'b'), ('nn', '1n')):
                S.append(('rejoin', first, second, reg2, 2, 2, ('elem', 'mask')))
    if t:
        S.append(('rejoin', 'a', 'b', 'fwd', 3, 2, ('elem', 'mask')))
        S.append(('rejoin', 'nn', 'a', 'rev', 2, 3, ('elem', 'mask')))
    S.append(('rejoin', 'a', 'b', 'fwd', 2, 2, ('flag',)))
    S.append(('rejoin', 'nn', '1n', 'rev', 2, 2, ('flag',)))
    # 2-d tables
    for shape in ('1-1', 'n-n', '1-n', 'n-1'):
        S.append(('shape2d', shape, 'i64', (2, 1), 2))
    S.append(('shape2d', '1-1', 'i64', (2, 2), 2))
    if t:
        for shape in ('n-n', '1-n', 'n-1'):
            S.append(('shape2d', shape, 'i64', (2, 2), 2))
        S.append(('shape2d', '1-1', 'str', (2, 2), 3))
    # chains
    for s1, s2 in (list(itertools.product(['1-1', 'n-n', '1-n', 'n-1'], repeat=2)) if t else CHAIN_Q):
        ncols = sum(NCOLS[s1]) + sum(NCOLS[s2])        # number of key tables = 4 ** ncols
        S.append(('chain', s1, s2, 2, 'short' if ncols <= (6 if t else 5) else 'none'))
    # trees
    S.append(('tree', 'chain3', 2, False, ('fwd', 'alt')))
    S.append(('tree', 'path4', 2, True, ('fwd',)))
    S.append(('tree', 'star4', 2, True, ('fwd',)))
    if t:
        S.append(('tree', 'chain3', 3, False, ('fwd', 'alt')))
        S.append(('tree', 'path4', 2, False, ('fwd', 'alt')))
        S.append(('tree', 'star4', 2, False, ('fwd', 'alt')))
    # cycles
    S.append(('cycle', 'C3', 'all', ('fwd', 'alt'), 'each'))
    S.append(('cycle', 'C4', 'all', ('fwd', 'alt'), 'uniform'))
    S.append(('cycle', 'lollipop', 'all', ('fwd',), 'uniform'))
    S.append(('cycle', 'diamond', 'rot', ('fwd',), 'uniform'))
    S.append(('cycle', 'K4', 'rot', ('fwd',), 'uniform'))
    if t:
        S.append(('cycle', 'C4', 'all', ('fwd', 'alt'), 'each'))
        S.append(('cycle', 'lollipop', 'all', ('fwd', 'alt'), 'each'))
        S.append(('cycle', 'diamond', 'all', ('fwd', 'alt'), 'uniform'))
        S.append(('cycle', 'K4', 'all', ('fwd',), 'uniform'))
    return S


def spec_id(spec):
    return core.short_hash(list(spec))


def worlds(spec, pal):
    sid = spec_id(spec)
    for i, w in enumerate(FAMS[spec[0]](spec, pal)):
        w['gid'] = '%s:%d' % (sid, i)
        w['pal'] = pal
        yield w


# ----------------------------------------------------------------------------- driver
STRIDE = 16


def work(shard):
    pal, items = shard
    core.bind()
    res = core.Result()
    for spec, k in items:
        dead = 0
        for w in itertools.islice(worlds(spec, pal), k, None, STRIDE):
            res.count('worlds')
            if not run_world(res, w):
                dead += 1
                if dead >= 5:       # only ever reached while a non-termination violation is being reported
                    res.count('spec_slices_abandoned_after_nontermination')
                    break
    return res


RULE = ('one evaluation = one Data.get_mask(selection evaluable only on another table, view) on a freshly '
        'built join graph; complete products of key tables x selected-row subsets x directions x views per '
        'family (see product_dimensions).  non-trivial = at least one row of the whole target is expected to be '
        'selected (a key match exists for the chosen rows), or the query is an unevaluable selection on a '
        'cyclic graph')


def run(tier):
    t0 = time.time()
    pal = core.seed() % 3
    specs = families(tier)
    items = core.rotate([(spec, k) for spec in specs for k in range(STRIDE)])
    shards = [(pal, s) for s in core.split(items, core.jobs() * 8)]
    total = core.run_shards(work, shards)
    dims = {}
    for spec in specs:
        dims.setdefault(spec[0], []).append('/'.join(str(x) for x in spec[1:]))
    cov = dict(product_dimensions=dims, palette=pal,
               value_palettes={k: v[pal] for k, v in PALETTES.items()},
               column_configurations=CFG)
    return core.finish(
        PROP, tier, total, 'exploration', RULE, t0, coverage=cov, confirm=confirm,
        assumptions=[
            'key attributes are stored columns (int, float, str); derived / pixel / world key attributes are '
            'excluded (their behaviour under mask views belongs to C04)',
            'both key columns of a compared pair have the same kind (int-int, float-float, str-str); NaN keys '
            'and int-vs-float / number-vs-string pairs are excluded (by-value equality is not defined by the '
            'property for them)',
            'at most one join between two datasets; join graphs with an evaluable selection are trees or have '
            'consistent (bijective) keys, so the answer does not depend on the path taken',
            'JoinLink is exercised for registration only; removing a JoinLink is not part of the statement',
            'tables have 1-4 rows, 1-d or (2,1)/(2,2) shapes; key alphabets of 2-3 values',
        ])


def _key(case, bad):
    return bad[1] + ('|stateful' if case.get('prefix') else '')


def confirm(v):
    out, bad = recheck(v['case'])
    return bad is not None and _key(v['case'], bad) == v['key']


def replay(doc):
    case = doc['case']
    print('  edges   ', case['world']['edges'])
    for name, nd in case['world']['nodes'].items():
        print('  table %s' % name, nd['shape'], {c: (x['v'], x['dt']) for c, x in nd['cols'].items()})
    for p in case.get('prefix') or []:
        print('  earlier ', p)
    print('  query   ', case['query'])
    out, bad = recheck(case)
    if bad is None:
        print('  observed', out[1].tolist() if out[0] == 'mask' else out, '(as expected)')
        return False
    print('  observed', core._clip(bad[2]))
    print('  expected', core._clip(bad[3]))
    print('  key     ', _key(case, bad))
    return _key(case, bad) == doc['key']
