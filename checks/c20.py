"""C20 - chunk, slice and broadcast helpers are exact (Mode I, complete to the bound)."""
import time
import itertools

import numpy as np

from mc import core

PROP = 'C20'


def shapes(ndim_max, dim_max, dim_min=0):
    for nd in range(1, ndim_max + 1):
        for s in itertools.product(range(dim_min, dim_max + 1), repeat=nd):
            yield s


# --------------------------------------------------------------------- chunks
def chunk_cases(tier):
    nd, dm = (3, 4) if tier == 'quick' else (4, 4)
    return [('chunks', list(s)) for s in shapes(nd, dm)] + \
           ([('chunks', list(s)) for s in shapes(2, 7) if max(s) > 4] if tier == 'thorough' else [])


def check_chunks(res, shape):
    from glue.utils.array import iterate_chunks
    shape = tuple(shape)
    size = int(np.prod(shape))
    configs = [('n_max', n) for n in range(1, size + 2)]
    if size > 0:
        configs += [('chunk_shape', cs) for cs in
                    itertools.product(*[range(1, s + 1) for s in shape])]
    else:
        configs += [('chunk_shape', tuple(max(s, 0) for s in shape))]
    for kind, val in configs:
        visits = np.zeros(shape, dtype=int)
        biggest = 0
        nchunks = 0
        try:
            it = iterate_chunks(shape, **{kind: val})
            for sl in it:
                nchunks += 1
                visits[sl] += 1
                n = int(np.prod([len(range(*s.indices(d))) for s, d in zip(sl, shape)]))
                biggest = max(biggest, n)
                if nchunks > size + 5:
                    break
        except Exception as e:
            if size == 0:
                res.case()
                continue
            res.violation('iterate_chunks-raises', 'iterate_chunks|raises|%s|%s' % (kind, type(e).__name__),
                          dict(kind='chunks', shape=shape, arg=kind, value=val), repr(e), 'chunks')
            continue
        limit = val if kind == 'n_max' else int(np.prod(val))
        res.case(sig=('ch', shape, kind, val) if nchunks > 1 else None,
                 sample=dict(fn='iterate_chunks', shape=shape, arg=kind, value=val, chunks=nchunks))
        if not np.all(visits == 1):
            res.violation('chunks-visit-once', 'iterate_chunks|visit-count|%s' % kind,
                          dict(kind='chunks', shape=shape, arg=kind, value=val),
                          visits.tolist(), 'all ones')
        elif biggest > limit:
            res.violation('chunk-too-large', 'iterate_chunks|too-large|%s' % kind,
                          dict(kind='chunks', shape=shape, arg=kind, value=val), biggest, '<=%d' % limit)


# ------------------------------------------------------------- combine_slices
def norm_slices(n, extra):
    out = []
    for start in range(0, n + 1):
        for stop in range(0, n + 1):
            for step in (1, 2, 3, 4) if extra else (1, 2, 3):
                out.append((start, stop, step))
    raw = [(None, None, None), (None, None, 2), (1, None, None), (None, -1, None), (-3, None, None),
           (-2, None, 2), (None, n + 3, 1), (-n - 2, None, 1), (None, None, 5), (2, -1, 3)]
    return out + raw


def slice_cases(tier):
    nmax = 8 if tier == 'quick' else 12
    return [('slices', n) for n in range(0, nmax + 1)]


def check_slices(res, n, tier):
    from glue.utils.array import combine_slices
    sl = norm_slices(n, tier != 'quick')
    base = np.arange(n)
    for a in sl:
        s1 = slice(*a)
        v1 = base[s1]
        pos = np.arange(len(v1))
        for b in sl:
            s2 = slice(*b)
            chosen = set(base[s2].tolist())
            expected = [i for i, x in enumerate(v1.tolist()) if x in chosen]
            try:
                r = combine_slices(s1, s2, n)
                got = pos[r].tolist()
            except Exception as e:
                res.violation('combine_slices-raises', 'combine_slices|raises|%s' % type(e).__name__,
                              dict(kind='slices', n=n, s1=a, s2=b), repr(e), expected)
                continue
            res.case(sig=('sl', n, a, b) if len(expected) > 0 and len(expected) < len(v1) else None,
                     sample=dict(fn='combine_slices', n=n, s1=a, s2=b, positions=expected))
            if got != expected:
                res.violation('combine_slices', 'combine_slices|positions|steps=%s,%s' % (a[2], b[2]),
                              dict(kind='slices', n=n, s1=a, s2=b), got, expected)


# ---------------------------------------------------------------- broadcasting
def bcast_cases(tier):
    dm = 3
    return [('bcast', list(s)) for s in shapes(3, dm, 1)]


def _variants(shape):
    """Arrays of the given shape with every zero-stride pattern, built from plain,
    transposed and stepped bases."""
    nd = len(shape)
    for pattern in itertools.product([False, True], repeat=nd):
        bshape = tuple(1 if p else s for p, s in zip(pattern, shape))
        size = int(np.prod(bshape))
        plain = (np.arange(size, dtype=float) * 1.5 + 1).reshape(bshape)
        yield 'plain', pattern, np.broadcast_to(plain, shape)
        if nd > 1:
            tb = (np.arange(size, dtype=float) + 7).reshape(bshape[::-1]).T
            yield 'transposed', pattern, np.broadcast_to(tb, shape)
        big = np.arange(size * 2 ** nd, dtype=float).reshape(tuple(2 * b for b in bshape))
        stepped = big[tuple(slice(None, None, 2) for _ in bshape)]
        yield 'stepped', pattern, np.broadcast_to(stepped, shape)
        # negative strides: the base reversed along every axis
        rev = (np.arange(size, dtype=float) * 0.5 - 3).reshape(bshape)[tuple(slice(None, None, -1) for _ in bshape)]
        yield 'reversed', pattern, np.broadcast_to(rev, shape)


def check_bcast(res, shape):
    from glue.utils.array import unbroadcast, broadcast_arrays_minimal
    shape = tuple(shape)
    variants = list(_variants(shape))
    for kind, pattern, arr in variants:
        case = dict(kind='bcast', shape=shape, base=kind, zero_stride=pattern)
        u = unbroadcast(arr)
        res.case(sig=('ub', shape, kind, pattern) if any(pattern) else None,
                 sample=dict(fn='unbroadcast', **case))
        exp_shape = tuple(1 if st == 0 else s for st, s in zip(arr.strides, arr.shape))
        ok = (u.shape == exp_shape and np.broadcast_shapes(u.shape, shape) == shape and
              np.array_equal(np.broadcast_to(u, shape), arr))
        if not ok:
            res.violation('unbroadcast', 'unbroadcast|%s' % kind, case,
                          dict(shape=u.shape, values=np.asarray(u).tolist()),
                          dict(shape=exp_shape, values=np.asarray(arr).tolist()))
    # pairs: broadcast_arrays_minimal
    for (k1, p1, a1), (k2, p2, a2) in itertools.product(variants[::2] + variants[1::3], repeat=2):
        case = dict(kind='bcast2', shape=shape, bases=[k1, k2], zero_stride=[p1, p2])
        r1, r2 = broadcast_arrays_minimal(a1, a2)
        exp_shape = tuple(1 if (x and y) else s for x, y, s in zip(p1, p2, shape))
        res.case(sig=('bm', shape, k1, p1, k2, p2) if exp_shape != shape else None)
        ok = (r1.shape == r2.shape and
              np.array_equal(np.broadcast_to(r1, shape), a1) and
              np.array_equal(np.broadcast_to(r2, shape), a2))
        # "smallest common shape": axes along which both inputs are constant collapse to 1
        strides_min = tuple(1 if (s1 == 0 and s2 == 0) else s for s1, s2, s in
                            zip(a1.strides, a2.strides, shape))
        if ok and r1.shape != strides_min:
            ok = False
        if not ok:
            res.violation('broadcast_arrays_minimal', 'broadcast_arrays_minimal|%s,%s' % (k1, k2), case,
                          dict(shape1=r1.shape, shape2=r2.shape), dict(shape=strides_min))


# ------------------------------------------------------------------ view_shape
def view_alphabet(shape):
    """The C04 view alphabet for one shape (kept local: C20 is the helpers)."""
    nd = len(shape)
    pal = [slice(None), slice(1, None), slice(None, -1), slice(None, None, 2), slice(1, None, 2),
           slice(1, 2), slice(0, 0),
           # empty because the start lies BEYOND the stop in the direction of the step, and negative steps
           slice(2, 1), slice(3, 0, 2), slice(0, 2, -1), slice(None, None, -1), slice(-1, 0, -2)]
    views = [None, Ellipsis]
    for k in range(1, nd + 1):
        entries = pal + [0, -1] + ([1] if min(shape[:k]) > 1 else [])
        for t in itertools.product(entries, repeat=k):
            views.append(tuple(t))
    if nd >= 1:
        rng = np.arange(int(np.prod(shape))).reshape(shape)
        views.append(rng % 2 == 0)
        views.append(tuple(np.array([0, s - 1, 0]) for s in shape))
        views.append(tuple(np.array([[0, s - 1], [s - 1, 0]]) for s in shape))
        # tuples of index arrays / boolean masks SHORTER than ndim (trailing axes stay), and masks inside tuples
        for k in range(1, nd):
            views.append(tuple(np.array([0, s - 1, 0]) for s in shape[:k]))
            views.append(tuple(np.array([[0], [s - 1]]) for s in shape[:k]))
        views.append((np.arange(shape[0]) % 2 == 0,))
        if nd > 1:
            views.append((np.arange(shape[0]) % 2 == 0, np.zeros(int(np.sum(np.arange(shape[0]) % 2 == 0)), dtype=int)))
            views.append((slice(None), np.arange(shape[1]) % 2 == 0))
            views.append((0, np.array([0, shape[1] - 1])))
        views.append((Ellipsis, slice(None, None, 2)))
    return views


def vshape_cases(tier):
    dm = 3 if tier == 'quick' else 4
    return [('vshape', list(s)) for s in shapes(3, dm, 1)]


def check_vshape(res, shape):
    from glue.utils.array import view_shape
    shape = tuple(shape)
    z = np.zeros(shape)
    for v in view_alphabet(shape):
        try:
            exp = z[v].shape if v is not None else shape
        except IndexError:
            continue
        case = dict(kind='vshape', shape=shape, view=core.jdefault(v) if not isinstance(v, tuple) else
                    [core.jdefault(x) if not isinstance(x, int) else x for x in v])
        try:
            got = view_shape(shape, v)
        except Exception as e:
            res.violation('view_shape-raises', 'view_shape|raises|%s' % type(e).__name__, case, repr(e), exp)
            continue
        res.case(sig=('vs', shape, repr(v)) if exp != shape else None, sample=dict(fn='view_shape', **case))
        if tuple(got) != tuple(exp):
            res.violation('view_shape', 'view_shape|wrong', case, tuple(got), tuple(exp))


# ------------------------------------------------------------------ categorical
ALPHABETS = {'str': ['a', 'bb', 'c'], 'num': [1.0, 2.5, -1.0], 'int': [3, 1, 2]}


def cat_cases(tier):
    lmax = 5 if tier == 'quick' else 6
    return [('cat', name, n) for name in ALPHABETS for n in range(0, lmax + 1)]


def check_cat(res, name, n):
    from glue.utils.array import categorical_ndarray, unique, index_lookup
    alpha = ALPHABETS[name]
    for combo in itertools.product(range(len(alpha)), repeat=n):
        vals = np.array([alpha[i] for i in combo]) if n else np.array([], dtype=np.array(alpha).dtype)
        # memory layouts: C order, 2-d reshape, transposed view, Fortran order, reversed view
        layouts = [('c', vals)]
        if n in (4, 6):
            two = vals.reshape((2, n // 2))
            layouts += [('c2d', two), ('transposed', two.T), ('fortran', np.asfortranarray(two))]
        if n >= 2:
            layouts.append(('reversed', vals[::-1]))
        for lay, arr in layouts:
            shp = arr.shape
            case = dict(kind='cat', alphabet=name, values=arr.tolist(), layout=lay)
            res.case(sig=('cat', name, combo, shp, lay) if len(set(combo)) > 1 else None,
                     sample=dict(fn='categorical_ndarray', **case))
            exp_cats = np.array(sorted(set(vals.tolist())), dtype=vals.dtype)
            try:
                c = categorical_ndarray(arr)
                cats, codes = c.categories, c.codes
                ok = (np.array_equal(cats, exp_cats) and codes.shape == arr.shape and
                      (arr.size == 0 or np.array_equal(np.asarray(cats)[codes.astype(int)], arr)))
                obs = dict(categories=np.asarray(cats).tolist(), codes=np.asarray(codes).tolist())
            except Exception as e:
                ok, obs = False, repr(e)
            if not ok:
                res.violation('categorical', 'categorical_ndarray|%s' % name, case, obs,
                              dict(categories=exp_cats.tolist()))
            # arrays DERIVED from a categorical array whose codes are already known (same shape, other order or
            # content) must satisfy the same identity
            try:
                if arr.size >= 2 and not (ok is False):
                    c = categorical_ndarray(arr)
                    c.codes
                    derived = [('reversed', c[tuple(slice(None, None, -1) for _ in shp)]),
                               ('rolled', np.roll(c, 1)), ('sorted', np.sort(c, axis=None).reshape(shp)),
                               ('perm', c.ravel()[np.arange(c.size)[::-1]].reshape(shp))]
                    if len(shp) == 2 and shp[0] == shp[1]:
                        derived.append(('T', c.T))
                    mod = c.copy()
                    mod.flat[0] = c.flat[c.size - 1]
                    derived.append(('copy-modified', mod))
                    for dname, dv in derived:
                        res.case()
                        if not isinstance(dv, categorical_ndarray):
                            continue
                        dcats, dcodes = dv.categories, dv.codes
                        if not np.array_equal(np.asarray(dcats)[np.asarray(dcodes).astype(int)], np.asarray(dv)):
                            res.violation('categorical', 'categorical_ndarray|derived:%s' % dname,
                                          dict(case, derived=dname),
                                          dict(values=np.asarray(dv).tolist(), codes=np.asarray(dcodes).tolist(),
                                               categories=np.asarray(dcats).tolist()), 'categories[codes] == values')
            except Exception as e:
                res.violation('categorical', 'categorical_ndarray|derived|raises', case, repr(e), 'no exception')
            try:
                U, I = unique(arr)
                ok = (np.array_equal(U, exp_cats) and I.shape == arr.shape and
                      (arr.size == 0 or np.array_equal(U[I], arr)))
                obs = dict(U=np.asarray(U).tolist(), I=np.asarray(I).tolist())
            except Exception as e:
                ok, obs = False, repr(e)
            if not ok:
                res.violation('unique', 'unique|%s' % name, case, obs, dict(U=exp_cats.tolist()))
        # index_lookup against every ordered sub-list of the alphabet
        if n == 0:
            continue
        for k in range(0, len(alpha) + 1):
            for items in itertools.permutations(alpha, k):
                case = dict(kind='lookup', alphabet=name, values=vals.tolist(), items=list(items))
                res.case()
                try:
                    r = index_lookup(vals, np.array(items, dtype=vals.dtype))
                    ok = len(r) == n
                    for x, ri in zip(vals.tolist(), r):
                        if np.isfinite(ri):
                            ok = ok and items[int(ri)] == x
                        else:
                            ok = ok and x not in items
                    obs = np.asarray(r).tolist()
                except Exception as e:
                    ok, obs = False, repr(e)
                if not ok:
                    res.violation('index_lookup', 'index_lookup|%s' % name, case, obs,
                                  'items[result[i]] == data[i], NaN iff absent')


# ------------------------------------------------------------------------ main
def work(shard):
    tier, cases = shard
    core.bind()
    res = core.Result()
    for c in cases:
        do_case(res, c, tier)
    return res


def do_case(res, c, tier):
    if c[0] == 'chunks':
        check_chunks(res, c[1])
    elif c[0] == 'slices':
        check_slices(res, c[1], tier)
    elif c[0] == 'bcast':
        check_bcast(res, c[1])
    elif c[0] == 'vshape':
        check_vshape(res, c[1])
    elif c[0] == 'cat':
        check_cat(res, c[1], c[2])


def all_cases(tier):
    return chunk_cases(tier) + slice_cases(tier) + bcast_cases(tier) + vshape_cases(tier) + cat_cases(tier)


def run(tier):
    t0 = time.time()
    cases = core.rotate(all_cases(tier))
    # heavy cases first so shards balance
    total = core.run_shards(work, [(tier, s) for s in core.split(cases, core.jobs() * 6)])
    dims = dict(chunk_shapes=len(chunk_cases(tier)), slice_lengths=len(slice_cases(tier)),
                bcast_shapes=len(bcast_cases(tier)), view_shapes=len(vshape_cases(tier)),
                categorical_groups=len(cat_cases(tier)))
    return core.finish(
        PROP, tier, total, 'exploration',
        'complete Cartesian products: shapes x every n_max / chunk_shape; every pair of positive-step slices '
        'per length; every zero-stride pattern x base layout; shapes x view alphabet; every array over a '
        '3-letter alphabet.  non-trivial = more than one chunk / a proper non-empty overlap / at least one '
        'broadcast axis / view changes the shape / more than one category',
        t0, coverage=dict(product_dimensions=dims), confirm=confirm,
        assumptions=['shapes, lengths and alphabets are bounded as listed in product_dimensions'])


def confirm(v):
    res = core.Result()
    c = v['case']
    k = c['kind']
    if k == 'chunks':
        check_chunks(res, c['shape'])
    elif k == 'slices':
        check_slices(res, c['n'], 'thorough')
    elif k in ('bcast', 'bcast2'):
        check_bcast(res, c['shape'])
    elif k == 'vshape':
        check_vshape(res, c['shape'])
    elif k in ('cat', 'lookup'):
        check_cat(res, c['alphabet'], len(c['values']) if k == 'lookup' else int(np.size(c['values'])))
    hit = [x for x in res.violations if x['key'] == v['key']]
    for x in hit[:1]:
        print('  observed', core._clip(x['observed']), 'expected', core._clip(x['expected']))
    return bool(hit)


def replay(doc):
    return confirm(doc)
