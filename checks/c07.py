"""C07 - hub delivery: exactly once, in order, right listeners, delay/ignore.

Mode S: explicit-state BFS over top-level operation histories on a real Hub,
where the history also arms handler scripts (a listener's next invocation
broadcasts / opens a delay block / subscribes / unsubscribes).  The number of
armed scripts per history (deviations from "handlers do nothing") is bounded.
A 70-line reference model runs in lock-step; after every step the per-listener
delivery logs must be equal, nothing may be delivered while a delay block is
open and nothing may be delivered twice.
"""
import gc
import time
import collections

from mc import core, hist

PROP = 'C07'

SUP = {'Ma': ['Ma', 'M'], 'Mb': ['Mb', 'Ma', 'M'], 'Mc': ['Mc', 'M'], 'M': ['M']}  # most specific first
FILT = {'all': lambda tag: True, 'even': lambda tag: tag % 2 == 0}

_cls = {}


def classes():
    if not _cls:
        from glue.core.message import Message

        class Ma(Message):
            pass

        class Mb(Ma):
            pass

        class Mc(Message):
            pass
        _cls.update(Ma=Ma, Mb=Mb, Mc=Mc, M=Message)
    return _cls


# subscription alphabet: name -> (listener, class, filter, priority, via_helper)
SUBS = collections.OrderedDict([
    ('A.Ma', ('A', 'Ma', 'all', 10, False)),
    ('A.M', ('A', 'M', 'even', 30, False)),
    ('A.Mb', ('A', 'Mb', 'even', 30, False)),   # most specific subscription with a filter that can reject
                                                # while the listener's more general one (A.Ma) accepts
    ('B.Mb', ('B', 'Mb', 'all', 20, False)),
    ('B.Ma', ('B', 'Ma', 'all', 20, False)),
    ('B.Mc', ('B', 'Mc', 'all', 20, True)),     # handler is a bound method of a helper object
    # the SAME (listener, class, handler) subscribed again with another filter / priority: the newest settings
    # replace the earlier ones
    ('A.Mb/2', ('A', 'Mb', 'all', 5, False)),
    ('B.Ma/2', ('B', 'Ma', 'even', 40, False)),
])
UNSUBS = [('A', 'Ma'), ('B', 'Mb')]
PRESUB = ('A.Mb', 'A.Ma', 'B.Mb', 'B.Ma')      # start state of the '-presub' scenarios
ACTIONS = [['bc', 'Mc'], ['bc', 'Mb'], ['dbc', 'Mb'], ['sub', 'B.Ma'], ['unsub', 'B', 'Mb'],
           ['unsuball', 'B'], ['ddbc', 'Ma'], ['unsuball', 'A'], ['ibc', 'Mb'], ['d']]
# NOT in the alphabet: a handler dropping the last reference to another listener.  The hub holds the recipients
# of the delivery in progress strongly, so the 'dead' listener stays subscribed until that delivery ends - when
# exactly the weak reference dies is garbage-collector timing, which the property does not constrain.


class Model(object):
    """Boring reference model of the documented hub semantics."""

    def __init__(self, world):
        self.w = world
        self.subs = collections.OrderedDict()   # listener -> {cls: (filt, prio, helper)}
        self.depth = 0
        self.ign = collections.Counter()
        self.queue = []
        self.log = []
        self.tag = 0

    def subscribe(self, name):
        l, c, f, p, h = SUBS[name]
        if l not in self.w.alive:
            return
        self.subs.setdefault(l, {})[c] = (f, p, h)

    def unsubscribe(self, l, c):
        if l in self.subs:
            self.subs[l].pop(c, None)

    def unsubscribe_all(self, l):
        self.subs.pop(l, None)

    def kill(self, l):
        self.subs.pop(l, None)

    def kill_helper(self):
        for l, d in self.subs.items():
            for c in [c for c, v in d.items() if v[2]]:
                d.pop(c)

    def new_message(self, c):
        self.tag += 1
        return (c, self.tag)

    def broadcast(self, c):
        m = self.new_message(c)
        self._broadcast(m)

    def _broadcast(self, m):
        if self.ign[m[0]] > 0:
            return
        if self.depth > 0:
            self.queue.append(m)
            return
        rec = []
        for l, d in list(self.subs.items()):
            cand = [x for x in SUP[m[0]] if x in d]
            if not cand:
                continue
            f, p, h = d[cand[0]]
            if FILT[f](m[1]):
                rec.append((l, p))
        rec.sort(key=lambda x: -x[1])
        for l, p in rec:
            self.log.append((l, m[0], m[1]))
            act = self.w.armed_model.pop(l, None)
            if act is not None:
                perform(self, act)

    def enter_delay(self):
        self.depth += 1

    def exit_delay(self, exc=False):
        self.depth -= 1
        if self.depth == 0:
            q, self.queue = self.queue, []
            for m in q:
                self._broadcast(m)

    def enter_ign(self, c):
        self.ign[c] += 1

    def exit_ign(self, c):
        self.ign[c] -= 1


class Boom(Exception):
    pass


class Real(object):

    def __init__(self, world):
        from glue.core.hub import Hub, HubListener
        self.w = world
        self.hub = Hub()
        self.log = []
        self.stack = []          # context managers opened by top-level ops
        self.open_delays = 0     # all delay blocks currently open (top-level and in handlers)
        self.tag = 0
        self.problems = []
        real = self

        class Lis(HubListener):
            def __init__(self, name):
                self.name = name

            def notify(self, m):
                real.on_message(self.name, m)

        class Helper(object):
            def __init__(self, name):
                self.name = name

            def handle(self, m):
                real.on_message(self.name, m)

        self.Lis = Lis
        self.L = {'A': Lis('A'), 'B': Lis('B')}
        self.helper = Helper('B')

    def on_message(self, name, m):
        c = type(m).__name__
        if c == 'Message':
            c = 'M'
        if self.open_delays > 0:
            self.problems.append(('delivered-while-delay-open', [name, c, m.tag], 'nothing delivered'))
        self.log.append((name, c, m.tag))
        act = self.w.armed_real.pop(name, None)
        if act is not None:
            perform(self, act)

    def subscribe(self, name):
        l, c, f, p, h = SUBS[name]
        if l not in self.L:
            return
        filt = FILT[f]
        kw = {}
        if h:
            if self.helper is None:
                return
            kw['handler'] = self.helper.handle
        self.hub.subscribe(self.L[l], classes()[c], filter=lambda m: filt(m.tag), priority=p, **kw)

    def unsubscribe(self, l, c):
        if l in self.L:
            self.hub.unsubscribe(self.L[l], classes()[c])

    def unsubscribe_all(self, l):
        if l in self.L:
            self.hub.unsubscribe_all(self.L[l])

    def kill(self, l):
        self.L.pop(l, None)

    def kill_helper(self):
        self.helper = None

    def broadcast(self, c):
        self.tag += 1
        self.hub.broadcast(classes()[c](None, tag=self.tag))

    def enter_delay(self):
        cm = self.hub.delay_callbacks()
        cm.__enter__()
        self.open_delays += 1
        self.stack.append(cm)

    def exit_delay(self, exc=False):
        cm = self.stack.pop()
        self.open_delays -= 1
        if exc:
            e = Boom()
            try:
                cm.__exit__(Boom, e, None)
            except Boom:
                pass
        else:
            cm.__exit__(None, None, None)

    def enter_ign(self, c):
        cm = self.hub.ignore_callbacks(classes()[c])
        cm.__enter__()
        self.stack.append(cm)

    def exit_ign(self, c):
        self.stack.pop().__exit__(None, None, None)


def perform(side, act):
    """A handler script, executed identically against the real hub and the model."""
    k = act[0]
    if k == 'bc':
        side.broadcast(act[1])
    elif k == 'dbc':           # with hub.delay_callbacks(): hub.broadcast(X)
        _scoped_delay(side, lambda: side.broadcast(act[1]))
    elif k == 'd':             # with hub.delay_callbacks(): pass
        _scoped_delay(side, lambda: None)
    elif k == 'ddbc':          # nested delay blocks inside the handler
        _scoped_delay(side, lambda: _scoped_delay(side, lambda: side.broadcast(act[1])))
    elif k == 'sub':
        side.subscribe(act[1])
    elif k == 'unsub':
        side.unsubscribe(act[1], act[2])
    elif k == 'unsuball':
        side.unsubscribe_all(act[1])
    elif k == 'kill':          # a handler drops the last reference to another listener
        side.w.alive.discard(act[1])
        side.kill(act[1])
    elif k == 'ibc':           # with hub.ignore_callbacks(X): hub.broadcast(X)  -> dropped
        side.enter_ign(act[1])
        try:
            side.broadcast(act[1])
        finally:
            side.exit_ign(act[1])
    else:
        raise core.EngineError('unknown action %r' % (act,))


def _scoped_delay(side, body):
    if isinstance(side, Real):
        side.open_delays += 1
        cm = side.hub.delay_callbacks()
        cm.__enter__()
        try:
            body()
        finally:
            side.open_delays -= 1
            cm.__exit__(None, None, None)
    else:
        side.enter_delay()
        body()
        side.exit_delay()


class World(object):
    def __init__(self):
        self.alive = {'A', 'B'}
        self.helper_alive = True
        self.armed_real = {}
        self.armed_model = {}
        self.ctx = []            # top-level LIFO stack: 'd' or ('i', cls)
        self.deviations = 0
        self.violations = []
        self.real = Real(self)
        self.model = Model(self)


class Scenario(object):

    def __init__(self, max_dev, max_ctx=3, ign_classes=('Mb',), actions=ACTIONS, kills=True, presub=()):
        self.presub = presub
        self.max_dev = max_dev
        self.max_ctx = max_ctx
        self.ign_classes = ign_classes
        self.actions = actions
        self.kills = kills

    def new_world(self):
        w = World()
        for name in self.presub:       # start from a non-initial state: listeners already subscribed
            w.model.subscribe(name)
            w.real.subscribe(name)
        return w

    def enabled(self, w):
        ops = []
        for name, (l, c, f, p, h) in SUBS.items():
            if l in w.alive and (not h or w.helper_alive):
                ops.append(['sub', name])
        for l, c in UNSUBS:
            if l in w.alive:
                ops.append(['unsub', l, c])
        if 'B' in w.alive:
            ops.append(['unsuball', 'B'])
            if self.kills:
                ops.append(['kill', 'B'])
        if w.helper_alive and self.kills:
            ops.append(['killh'])
        for c in ('Ma', 'Mb', 'Mc'):
            ops.append(['bc', c])
        if len(w.ctx) < self.max_ctx:
            ops.append(['delay+'])
            for c in self.ign_classes:
                ops.append(['ign+', c])
        if w.ctx:
            top = w.ctx[-1]
            if top == 'd':
                ops.append(['delay-'])
                ops.append(['delayx'])
            else:
                ops.append(['ign-', top[1]])
        if w.deviations < self.max_dev:
            for l in sorted(w.alive):
                if l not in w.armed_model:
                    for a in self.actions:
                        ops.append(['arm', l] + list(a))
        return ops

    def opname(self, op):
        return ':'.join(str(x) for x in op)

    def apply(self, w, op):
        k = op[0]
        if k == 'arm':
            w.armed_real[op[1]] = list(op[2:])
            w.armed_model[op[1]] = list(op[2:])
            w.deviations += 1
            return
        if k == 'kill':
            w.alive.discard(op[1])
            w.armed_real.pop(op[1], None)
            w.armed_model.pop(op[1], None)
        if k == 'killh':
            w.helper_alive = False
        if k == 'delay+':
            w.ctx.append('d')
        elif k in ('delay-', 'delayx'):
            w.ctx.pop()
        elif k == 'ign+':
            w.ctx.append(('i', op[1]))
        elif k == 'ign-':
            w.ctx.pop()
        for side in (w.model, w.real):
            try:
                self._do(side, op)
            except RecursionError:
                if side is w.real:
                    w.violations.append(('nontermination', 'RecursionError in %s' % self.opname(op),
                                         'terminates'))
                else:
                    raise core.EngineError('model recursion')

    def _do(self, side, op):
        k = op[0]
        if k == 'sub':
            side.subscribe(op[1])
        elif k == 'unsub':
            side.unsubscribe(op[1], op[2])
        elif k == 'unsuball':
            side.unsubscribe_all(op[1])
        elif k == 'kill':
            side.kill(op[1])
        elif k == 'killh':
            side.kill_helper()
        elif k == 'bc':
            side.broadcast(op[1])
        elif k == 'delay+':
            side.enter_delay()
        elif k == 'delay-':
            side.exit_delay()
        elif k == 'delayx':
            side.exit_delay(exc=True)
        elif k == 'ign+':
            side.enter_ign(op[1])
        elif k == 'ign-':
            side.exit_ign(op[1])
        else:
            raise core.EngineError('unknown op %r' % (op,))

    def check(self, w):
        out = []
        r, m = w.real, w.model
        for p in r.problems:
            out.append(p)
        rl = [list(x) for x in r.log]
        ml = [list(x) for x in m.log]
        if rl != ml:
            # first difference
            i = 0
            while i < min(len(rl), len(ml)) and rl[i] == ml[i]:
                i += 1
            out.append(('delivery-log', rl[i:i + 4], ml[i:i + 4], 'first difference at log index %d' % i))
        ids = [(x[0], x[2]) for x in r.log]
        if len(ids) != len(set(ids)):
            dup = [x for x, n in collections.Counter(ids).items() if n > 1]
            out.append(('delivered-twice', dup[:3], 'each (listener, message) at most once'))
        if not w.ctx:
            if r.hub._queue:
                out.append(('queue-not-flushed', len(r.hub._queue), 0))
        return out

    def canon(self, w):
        r = w.real
        subs = {}
        for lis, cont in r.hub._subscriptions.items():
            subs[lis.name] = sorted((c.__name__, cont[c][2]) for c in cont.keys())
        return dict(
            subs=subs,
            sub_order=[l.name for l in r.hub._subscriptions.keys()],
            paused=bool(r.hub._paused), nq=[type(m).__name__ for m in r.hub._queue],
            ign=sorted((c.__name__, n) for c, n in r.hub._ignore.items() if n),
            ctx=w.ctx, alive=sorted(w.alive), helper=w.helper_alive,
            armed=sorted(w.armed_real.items()), dev=w.deviations,
            parity=r.tag % 2,
            m_subs={l: sorted((c, v[1]) for c, v in d.items()) for l, d in w.model.subs.items()},
            m_depth=w.model.depth, m_q=[m[0] for m in w.model.queue],
            m_armed=sorted(w.armed_model.items()), ntag=(w.model.tag - r.tag),
        )


def tiers(tier):
    if tier == 'quick':
        return [('dev0', Scenario(0), 7), ('dev1', Scenario(1, max_ctx=2), 6),
                ('dev1-presub', Scenario(1, max_ctx=2, presub=PRESUB, kills=False), 6)]
    return [('dev0', Scenario(0), 8), ('dev1', Scenario(1), 7),
            ('dev2', Scenario(2, max_ctx=2, kills=False), 6),
            ('dev2-presub', Scenario(2, max_ctx=2, presub=PRESUB, kills=False), 6)]


def run(tier):
    t0 = time.time()
    total = core.Result()
    cov = dict(states=0, transitions=0, traces_validated_against_impl=0, runs=[])
    for label, scn, depth in tiers(tier):
        ex = hist.Explorer(scn, depth, PROP, label=label)
        res = ex.run()
        total.merge(res)
        c = ex.coverage()
        cov['states'] += c['states']
        cov['transitions'] += c['transitions']
        cov['traces_validated_against_impl'] += c['traces_validated_against_impl']
        c['scenario'] = label
        cov['runs'].append(c)
    cov['exhaustive'] = True
    cov['explanation'] = ('every well-formed history (LIFO delay/ignore blocks) over the op alphabet up to '
                          'the depth bound, per deviation bound; states de-duplicated on a canonical form of '
                          'the real hub + model')
    return core.finish(
        PROP, tier, total, 'model_checking',
        'distinct = distinct canonical (real hub, model) states reached; every transition executes the real Hub',
        t0, coverage=cov, confirm=confirm,
        assumptions=['handlers do not raise', 'context managers are closed in LIFO order by callers',
                     'listener death = immediate refcount death (no gc delay)',
                     'ties in priority are not compared (alphabet has no ties between listeners)'])


def _scn_for(label):
    for tier in ('thorough', 'quick'):
        for l, scn, d in tiers(tier):
            if l == label:
                return scn
    return Scenario(2)


def confirm(v):
    scn = _scn_for(v['case'].get('scenario'))
    viol = hist.replay(scn, v['case'], verbose=False)
    return any(x[0] == v['clause'] for x in viol)


def replay(doc):
    scn = _scn_for(doc['case'].get('scenario'))
    viol = hist.replay(scn, doc['case'])
    for x in viol:
        print('  violated:', x)
    return any(x[0] == doc['clause'] for x in viol)
