"""C18 - viewers and attribute pickers mirror the collection.

Mode H: BFS over histories of collection / viewer / picker operations on real viewers (matplotlib canvas
drawing stubbed: rendering is unobservable to the property), layer and picker invariants in every state.
A separate complete enumeration round-trips every State subclass over enumerated property values."""
import time
import itertools

import numpy as np

from mc import core, hist

PROP = 'C18'

_stubbed = False


def stub_canvas():
    global _stubbed
    if _stubbed:
        return
    import matplotlib
    matplotlib.use('Agg')
    from matplotlib.backend_bases import FigureCanvasBase
    from matplotlib.backends.backend_agg import FigureCanvasAgg
    for cls in (FigureCanvasBase, FigureCanvasAgg):
        cls.draw = lambda self, *a, **k: None
        cls.draw_idle = lambda self, *a, **k: None
    import logging
    logging.disable(logging.CRITICAL)
    _stubbed = True


def viewer_class(name):
    if name == 'base':
        from glue.viewers.common.viewer import Viewer
        return Viewer
    if name == 'scatter':
        from glue.viewers.scatter.viewer import SimpleScatterViewer
        return SimpleScatterViewer
    if name == 'histogram':
        from glue.viewers.histogram.viewer import SimpleHistogramViewer
        return SimpleHistogramViewer
    if name == 'image':
        from glue.viewers.image.viewer import SimpleImageViewer
        return SimpleImageViewer
    if name == 'profile':
        from glue.viewers.profile.viewer import SimpleProfileViewer
        return SimpleProfileViewer
    raise core.EngineError(name)


class World(object):

    def __init__(self, scn):
        from glue.core import Data
        from glue.core.application_base import Application
        from glue.core.coordinates import AffineCoordinates
        stub_canvas()
        self.violations = []
        self.app = Application()
        self.dc = self.app.data_collection
        self.kind = scn.kind
        self.shape = (2, 3) if scn.kind in ('image', 'profile') else (6,)
        if getattr(scn, 'cube', False):
            self.shape = (2, 3, 4)       # three axes: two displayed, one sliced
        self.pool = {'d0': self.fresh('d0'), 'd1': self.fresh('d1')}
        self.cids = {'x': self.pool['d0'].id['x'], 'y': self.pool['d0'].id['y'], 'z': self.pool['d1'].id['z']}
        self.dc.append(self.pool['d0'])
        self.dc.append(self.pool['d1'])
        self.kind = scn.kind
        if getattr(scn, 'pregroup', False):
            # a subset group that exists BEFORE the viewer is opened: its hub subscriptions precede the viewer's,
            # so it hears about removed datasets first
            self.dc.new_subset_group(subset_state=self.cids['x'] > 2.5, label='g')
        self.viewer = self.app.new_data_viewer(viewer_class(scn.kind))
        self.watch()
        self.given = []          # model: datasets whose data layer is in the viewer
        self.orphans = []        # model: [dataset name, group] subset layers left after only the data layer was removed
        self.removed_groups = []
        self.extra = False       # extra component 'w' on d0
        self.derived = False     # derived component 'sum' on d0

    def watch(self):
        """What the layer artists see: a listener to every change of the viewer state (drawing itself is stubbed, so
        the harness looks at the state at the moments an artist would draw it).  An image viewer must never show
        them the same axis twice."""
        if self.kind != 'image':
            return
        st = self.viewer.state
        world = self

        def seen(*args, **kwargs):
            x, y = st.x_att, st.y_att
            if x is not None and y is not None and x is y:
                world.violations.append(('image-axes-seen-by-listeners', dict(x_att=x.label, y_att=y.label),
                                         'two distinct pixel axes at every notification'))
        self._seen = seen
        st.add_global_callback(seen)

    def fresh(self, name):
        """A new dataset of the pool (not attached to any hub)."""
        from glue.core import Data
        from glue.core.coordinates import AffineCoordinates
        if self.kind in ('image', 'profile'):
            # 2-d numeric images, one of them with (affine) world coordinates
            m = np.array([[2., 0., 1.], [0., 3., 2.], [0., 0., 1.]])
            if len(self.shape) == 3:
                m = np.array([[2., 0., 0., 1.], [0., 3., 0., 2.], [0., 0., 1.5, -1.], [0., 0., 0., 1.]])
                if name == 'd0':
                    return Data(label='d0', x=np.arange(24.).reshape(2, 3, 4), y=np.arange(24.)[::-1].reshape(2, 3, 4).copy())
                return Data(label='d1', z=np.arange(24.).reshape(2, 3, 4) * 2, coords=AffineCoordinates(m))
            if name == 'd0':
                return Data(label='d0', x=np.arange(6.).reshape(2, 3), y=np.arange(6.)[::-1].reshape(2, 3).copy())
            return Data(label='d1', z=np.arange(6.).reshape(2, 3) * 2, coords=AffineCoordinates(m))
        # 1-d tables, one with a categorical attribute
        if name == 'd0':
            return Data(label='d0', x=np.arange(6.), y=np.arange(6.)[::-1].copy(),
                        c=np.array(['a', 'b', 'a', 'b', 'c', 'a']))
        return Data(label='d1', z=np.arange(6.) * 2)

    def name_of(self, data):
        for n, d in self.pool.items():
            if d is data:
                return n
        return '?' + getattr(data, 'label', '')

    def in_dc(self, n):
        return any(d is self.pool[n] for d in self.dc)

    def close(self):
        try:
            import matplotlib.pyplot as plt
            fig = getattr(self.viewer, 'figure', None)
            if fig is not None:
                plt.close(fig)
        except Exception:
            pass


def cid_helpers(state):
    from glue.core.data_combo_helper import ComponentIDComboHelper
    return sorted((k, v) for k, v in vars(state).items() if isinstance(v, ComponentIDComboHelper))


def expected_choices(helper):
    """Attributes of the helper's datasets that pass its kind filters (from the definition)."""
    out = [None] if helper.none else []
    for data in helper._data:
        for cid in data.main_components:
            kind = data.get_kind(cid)
            if (kind == 'numerical' and helper.numeric) or (kind == 'datetime' and helper.datetime) or \
                    (kind == 'categorical' and helper.categorical):
                out.append(cid)
        if helper.numeric and helper.derived:
            out += [c for c in data.derived_components if c.parent is data]
        if helper.pixel_coord:
            out += list(data.pixel_component_ids)
        if helper.world_coord:
            out += list(data.world_component_ids)
    return out


class Scenario(object):

    def __init__(self, kind, max_groups=1, comps=True, pickers=True, restore=True, layer_ops=True, pregroup=False,
                 cube=False):
        self.cube = cube
        self.pregroup = pregroup
        self.layer_ops = layer_ops
        self.kind = kind
        self.max_groups = max_groups
        self.comps = comps
        self.pickers = pickers
        self.restore = restore

    def new_world(self):
        return World(self)

    def opname(self, op):
        return ':'.join(str(x) for x in op)

    def enabled(self, w):
        ops = []
        for n in ('d0', 'd1'):
            if w.in_dc(n):
                ops.append(['dc_remove', n])
                if n not in w.given:
                    ops.append(['v_add', n])
                    if any(o[0] == n for o in w.orphans):
                        ops.append(['v_remove', n])
                    if self.layer_ops:
                        # a single subset shown without its dataset (add_subset / remove_subset are public)
                        for j, g in enumerate(w.dc.subset_groups):
                            if any(o[0] == n and o[1] is g for o in w.orphans):
                                ops.append(['v_remove_subset', n, j])
                            else:
                                ops.append(['v_add_subset', n, j])
                else:
                    ops.append(['v_remove', n])
                    if self.layer_ops:
                        ops.append(['v_remove_layer', n])
            else:
                ops.append(['dc_append', n])
        ng = len(w.dc.subset_groups)
        if ng < self.max_groups:
            ops.append(['new_group', 0])
        for j in range(ng):
            ops.append(['remove_group', j])
            ops.append(['set_state', j])
        if self.comps and self.kind in ('base', 'scatter', 'histogram') and w.in_dc('d0'):
            ops.append(['set_coords', 'd0'])       # (re-)assign coordinates to a dataset that may be on display
        if self.comps and w.in_dc('d0'):
            ops.append(['rm_comp', 'w'] if w.extra else ['add_comp', 'w'])
            ops.append(['reorder'])
            ops.append(['add_derived'] if not w.derived else ['rm_derived'])
        if self.pickers and self.kind != 'base':
            st = w.viewer.state
            for name, h in cid_helpers(st):
                n = len([c for c in h.choices if c is not None and not _is_sep(c)])
                if n > 1:
                    ops.append(['pick', name, 'last'])
                    ops.append(['pick', name, 'first'])
            if self.kind in ('scatter', 'histogram'):
                ops.append(['filter', 'x_att_helper', 'categorical'])
                ops.append(['filter', 'x_att_helper', 'numeric'])
            if self.kind in ('image', 'profile') and len(w.given) > 1:
                ops.append(['refdata', 'last'])
        if self.restore and self.kind != 'base' and len(w.dc) > 0:
            ops.append(['restore'])
        return ops

    def apply(self, w, op):
        k = op[0]
        v = w.viewer
        try:
            if k == 'dc_remove':
                w.dc.remove(w.pool[op[1]])
                if op[1] in w.given:
                    w.given.remove(op[1])
                w.orphans = [o for o in w.orphans if o[0] != op[1]]
            elif k == 'dc_append':
                w.dc.append(w.pool[op[1]])
            elif k == 'v_add':
                if v.add_data(w.pool[op[1]]):
                    w.given.append(op[1])
                    w.orphans = [o for o in w.orphans if o[0] != op[1]]
            elif k == 'v_remove':
                v.remove_data(w.pool[op[1]])
                if op[1] in w.given:
                    w.given.remove(op[1])
                w.orphans = [o for o in w.orphans if o[0] != op[1]]
            elif k == 'v_remove_layer':
                # the user removes only the dataset's own layer; its subset layers stay
                v.remove_layer(w.pool[op[1]])
                w.given.remove(op[1])
                w.orphans += [[op[1], s.group] for s in w.pool[op[1]].subsets]
            elif k in ('v_add_subset', 'v_remove_subset'):
                g = w.dc.subset_groups[op[2]]
                sub = [s for s in w.pool[op[1]].subsets if s.group is g][0]
                if k == 'v_add_subset':
                    if v.add_subset(sub):
                        w.orphans.append([op[1], g])
                else:
                    v.remove_subset(sub)
                    w.orphans = [o for o in w.orphans if not (o[0] == op[1] and o[1] is g)]
            elif k == 'new_group':
                w.dc.new_subset_group(subset_state=w.cids['x'] > 2.5, label='g')
            elif k == 'remove_group':
                g = w.dc.subset_groups[op[1]]
                w.dc.remove_subset_group(g)
                w.removed_groups.append(g)
                w.orphans = [o for o in w.orphans if o[1] is not g]
            elif k == 'set_state':
                w.dc.subset_groups[op[1]].subset_state = w.cids['y'] < 3.5
            elif k == 'set_coords':
                from glue.core.coordinates import AffineCoordinates
                d = w.pool[op[1]]
                w.ncoords = getattr(w, 'ncoords', 0) + 1
                d.coords = AffineCoordinates(np.array([[1.0 + w.ncoords % 2, 0.5], [0., 1.]]))
            elif k == 'add_comp':
                w.pool['d0'].add_component(np.ones(w.shape), 'w')
                w.extra = True
            elif k == 'rm_comp':
                w.pool['d0'].remove_component(w.pool['d0'].id['w'])
                w.extra = False
            elif k == 'reorder':
                d = w.pool['d0']
                d.reorder_components(d.components[::-1])
            elif k == 'add_derived':
                d = w.pool['d0']
                d.add_component_link(w.cids['x'] + w.cids['y'], 'sum')
                w.derived = True
            elif k == 'rm_derived':
                d = w.pool['d0']
                d.remove_component(d.id['sum'])
                w.derived = False
            elif k == 'pick':
                h = getattr(v.state, op[1])
                ch = [c for c in h.choices if c is not None and not _is_sep(c)]
                h.selection = ch[-1] if op[2] == 'last' else ch[0]
            elif k == 'filter':
                h = getattr(v.state, op[1])
                setattr(h, op[2], not getattr(h, op[2]))
            elif k == 'refdata':
                v.state.reference_data = w.pool[w.given[-1]]
            elif k == 'restore':
                self._restore(w)
            else:
                raise core.EngineError('unknown op %r' % (op,))
        except core.EngineError:
            raise
        except Exception as e:
            import traceback
            w.violations.append(('unexpected-exception', '%s: %s' % (type(e).__name__, str(e)[:200]),
                                 '%s succeeds' % self.opname(op), traceback.format_exc()[-700:]))

    def _restore(self, w):
        """Save the application with its viewer and continue with the restored one."""
        from glue.core.state import GlueSerializer, GlueUnSerializer
        gs = GlueSerializer(w.app, include_data=True)
        name = gs.id(w.viewer)
        text = gs.dumps()
        u = GlueUnSerializer.loads(text)
        app2 = u.object('__main__')
        v2 = u.object(name)
        names = [w.name_of(d) for d in w.dc]
        orphan_idx = [[o[0], [i for i, g in enumerate(w.dc.subset_groups) if g is o[1]][0]] for o in w.orphans]
        w.close()
        w.app, w.viewer, w.dc = app2, v2, app2.data_collection
        w.watch()
        for n, d in zip(names, w.dc):
            w.pool[n] = d
        # datasets outside the collection belong to the old session (and hub): the restored session gets new ones
        for n in ('d0', 'd1'):
            if n not in names:
                w.pool[n] = w.fresh(n)
                w.extra = w.extra and n != 'd0'
                w.derived = w.derived and n != 'd0'
        w.cids = {'x': w.pool['d0'].id['x'], 'y': w.pool['d0'].id['y'], 'z': w.pool['d1'].id['z']}
        w.removed_groups = []
        w.orphans = [[n, w.dc.subset_groups[i]] for n, i in orphan_idx]

    # -- oracle ------------------------------------------------------------------------
    def check(self, w):
        from glue.core.data import BaseData
        out = []
        v = w.viewer
        layers = list(v.layers)
        want = []
        for n in w.given:
            d = w.pool[n]
            want.append(('data', n))
            for s in d.subsets:
                want.append(('subset', n, [i for i, g in enumerate(w.dc.subset_groups) if g is getattr(s, 'group', None)]))
        for n, grp in w.orphans:
            want.append(('subset', n, [i for i, g in enumerate(w.dc.subset_groups) if g is grp]))
        got = []
        for la in layers:
            l = la.layer
            if isinstance(l, BaseData):
                got.append(('data', w.name_of(l)))
            else:
                got.append(('subset', w.name_of(l.data),
                            [i for i, g in enumerate(w.dc.subset_groups) if g is getattr(l, 'group', None)]))
        if sorted(map(core.jdump, got)) != sorted(map(core.jdump, want)):
            out.append(('layers-mirror-collection', dict(layers=got), dict(expected=want, given=w.given)))
        sl = [ls.layer for ls in v.state.layers]
        if len(sl) != len(layers) or any(a is not b.layer for a, b in zip(sl, layers)):
            out.append(('layer-list-vs-state-layers', dict(viewer=len(layers), state=len(sl)), 'identical lists'))
        for la in layers:
            l = la.layer
            d = l if isinstance(l, BaseData) else l.data
            if not any(d is x for x in w.dc):
                out.append(('layer-of-removed-dataset', w.name_of(d), 'no layer'))
            if not isinstance(l, BaseData) and any(getattr(l, 'group', None) is g for g in w.removed_groups):
                out.append(('layer-of-removed-group', w.name_of(d), 'no layer'))
        if self.kind != 'base':
            out += self.check_pickers(w)
        return out

    def check_pickers(self, w):
        out = []
        st = w.viewer.state
        layer_data = []
        for ls in st.layers:
            from glue.core.data import BaseData
            d = ls.layer if isinstance(ls.layer, BaseData) else ls.layer.data
            if not any(d is x for x in layer_data):
                layer_data.append(d)
        ref = getattr(st, 'reference_data', None)
        if self.kind in ('image', 'profile'):
            h = st.ref_data_helper
            ch = [c for c in h.choices if not _is_sep(c)]
            if [w.name_of(d) for d in ch] != [w.name_of(d) for d in layer_data]:
                out.append(('picker-choices', dict(picker='reference_data', choices=[w.name_of(d) for d in ch]),
                            [w.name_of(d) for d in layer_data]))
            if (ref is None) != (len(layer_data) == 0) or (ref is not None and not any(ref is d for d in layer_data)):
                out.append(('picker-selection', dict(picker='reference_data', selection=w.name_of(ref) if ref is not None else None),
                            'one of %s (None iff empty)' % [w.name_of(d) for d in layer_data]))
        for name, h in cid_helpers(st):
            rel = [ref] if self.kind in ('image', 'profile') else layer_data
            rel = [d for d in rel if d is not None]
            if [w.name_of(d) for d in h._data] != [w.name_of(d) for d in rel]:
                out.append(('picker-datasets', dict(picker=name, datasets=[w.name_of(d) for d in h._data]),
                            [w.name_of(d) for d in rel]))
                continue
            ch = [c for c in h.choices if not _is_sep(c)]
            exp = expected_choices(h)
            if len(ch) != len(exp) or any(a is not b for a, b in zip(ch, exp)):
                out.append(('picker-choices', dict(picker=name, choices=[getattr(c, 'label', None) for c in ch]),
                            [getattr(c, 'label', None) for c in exp]))
                continue
            sel = h.selection
            if len(ch) == 0:
                if sel is not None:
                    out.append(('picker-selection', dict(picker=name, selection=getattr(sel, 'label', None)), None))
            elif not any(sel is c for c in ch):
                out.append(('picker-selection', dict(picker=name, selection=getattr(sel, 'label', None)),
                            'one of %s' % [getattr(c, 'label', None) for c in ch]))
        if self.kind == 'image' and ref is None:
            if st.x_att is not None or st.y_att is not None or st.x_att_world is not None or st.y_att_world is not None:
                out.append(('image-axes', dict(x_att=getattr(st.x_att, 'label', None), y_att=getattr(st.y_att, 'label', None)),
                            'no axes selected when the viewer holds no dataset'))
        if self.kind == 'image' and ref is not None:
            pix = list(ref.pixel_component_ids)
            x, y = st.x_att, st.y_att
            ok = x is not None and y is not None and any(x is p for p in pix) and any(y is p for p in pix) and x is not y
            if not ok:
                out.append(('image-axes', dict(x_att=getattr(x, 'label', None), y_att=getattr(y, 'label', None)),
                            'two distinct pixel axes of %s' % w.name_of(ref)))
            else:
                if ref.coords is not None:
                    wx, wy = ref.world_component_ids[x.axis], ref.world_component_ids[y.axis]
                else:
                    wx, wy = x, y
                if st.x_att_world is not wx or st.y_att_world is not wy:
                    out.append(('image-axes-world-twin',
                                dict(x_att=x.label, x_att_world=getattr(st.x_att_world, 'label', None),
                                     y_att=y.label, y_att_world=getattr(st.y_att_world, 'label', None)),
                                dict(x_att_world=wx.label, y_att_world=wy.label)))
        return out

    def canon(self, w):
        v = w.viewer
        st = v.state
        from glue.core.data import BaseData
        lay = []
        for la in v.layers:
            l = la.layer
            lay.append(['d', w.name_of(l)] if isinstance(l, BaseData) else
                       ['s', w.name_of(l.data), [i for i, g in enumerate(w.dc.subset_groups) if g is getattr(l, 'group', None)]])
        c = dict(dc=[w.name_of(d) for d in w.dc], given=w.given, layers=lay,
                 orphans=sorted([o[0], [i for i, g in enumerate(w.dc.subset_groups) if g is o[1]]] for o in w.orphans),
                 nstate=len(st.layers), groups=[repr(type(g.subset_state).__name__) + str(_thr(g)) for g in w.dc.subset_groups],
                 subsets={n: len(d.subsets) for n, d in w.pool.items()}, extra=w.extra, nrem=len(w.removed_groups),
                 comps={n: [x.label for x in d.components] for n, d in w.pool.items()})
        if self.kind != 'base':
            pick = {}
            for name, h in cid_helpers(st):
                pick[name] = [[getattr(x, 'label', None) for x in h.choices if not _is_sep(x)],
                              getattr(h.selection, 'label', None), h.numeric, h.categorical]
            c['pick'] = pick
            ref = getattr(st, 'reference_data', None)
            c['ref'] = w.name_of(ref) if ref is not None else None
        return c


def _thr(g):
    s = g.subset_state
    return getattr(s, 'right', None)


def _is_sep(c):
    from echo.selection import ChoiceSeparator
    return isinstance(c, ChoiceSeparator)


# ---------------------------------------------------------------------------------------------
# State subclasses: __gluestate__/__setgluestate__ round trip over enumerated property values
# ---------------------------------------------------------------------------------------------
def state_roundtrip(res, tier):
    from glue.core.state_objects import State
    from glue.core.state import GlueSerializer, GlueUnSerializer
    from echo import CallbackProperty, SelectionCallbackProperty
    import importlib
    import pkgutil
    import glue.viewers
    for m in pkgutil.walk_packages(glue.viewers.__path__, 'glue.viewers.'):
        if '.tests' in m.name or 'qt' in m.name:
            continue
        try:
            importlib.import_module(m.name)
        except Exception:
            pass

    def subclasses(c):
        out = []
        for s in c.__subclasses__():
            out.append(s)
            out += subclasses(s)
        return out
    classes = sorted(set(subclasses(State)), key=lambda c: (c.__module__, c.__name__))
    palette = [0, 0.0, 1.5, -2.0, True, False, 'abc', '', None, [1, 2], [], (0.5, 0.25)]
    skipped = []
    for cls in classes:
        if not cls.__module__.startswith('glue.'):
            continue
        try:
            inst = cls()
        except Exception:
            skipped.append(cls.__name__)
            continue
        from echo import ListCallbackProperty, DictCallbackProperty
        props = [p for p in inst.callback_properties()
                 if isinstance(getattr(type(inst), p), CallbackProperty) and
                 not isinstance(getattr(type(inst), p), (SelectionCallbackProperty, ListCallbackProperty,
                                                         DictCallbackProperty))]
        for p in props:
            default = getattr(inst, p)
            for val in palette:
                if val is None and default is not None:
                    continue      # 'unset' is only in the domain of properties that start unset
                try:
                    obj = cls()
                    setattr(obj, p, val)
                except Exception:
                    continue
                case = dict(kind='state', cls='%s.%s' % (cls.__module__, cls.__name__), prop=p, value=val)
                try:
                    gs = GlueSerializer(obj)
                    text = gs.dumps()
                except Exception:
                    res.case()      # loud at save time: allowed
                    continue
                try:
                    obj2 = GlueUnSerializer.loads(text).object('__main__')
                    got = getattr(obj2, p)
                    ok = type(obj2) is cls and core.jdump(got) == core.jdump(getattr(obj, p))
                except Exception as e:
                    ok, got = False, '%s: %s' % (type(e).__name__, str(e)[:120])
                res.case(sig=('st', cls.__name__, p, repr(val)), sample=case)
                if not ok:
                    res.violation('state-roundtrip', 'state-roundtrip|%s|%s' % (cls.__name__, p), case,
                                  core.jdefault(got) if not isinstance(got, (int, float, str, bool, type(None), list)) else got,
                                  val)
    res.count('state_classes', len(classes))
    if skipped:
        res.notes.append('State subclasses that cannot be built without arguments (not round-tripped): %s'
                         % ', '.join(sorted(skipped)))


def tiers(tier):
    if tier == 'quick':
        return [('base', Scenario('base', max_groups=2, comps=False), 7),
                ('scatter', Scenario('scatter'), 3), ('histogram', Scenario('histogram'), 3),
                ('image', Scenario('image'), 3), ('profile', Scenario('profile'), 3),
                ('image-cube', Scenario('image', comps=False, restore=False, layer_ops=False, cube=True), 3),
                ('base-pregroup', Scenario('base', max_groups=2, comps=False, pregroup=True), 5),
                ('scatter-pregroup', Scenario('scatter', comps=False, pickers=False, restore=False, pregroup=True), 3),
                ('image-pregroup', Scenario('image', comps=False, pickers=False, restore=False, pregroup=True), 3)]
    return [('base', Scenario('base', max_groups=2), 9),
            ('scatter', Scenario('scatter'), 4), ('histogram', Scenario('histogram'), 4),
            ('image', Scenario('image'), 4), ('profile', Scenario('profile'), 4),
            ('image-cube', Scenario('image', cube=True), 3), ('profile-cube', Scenario('profile', cube=True), 3),
            ('base-pregroup', Scenario('base', max_groups=2, pregroup=True), 7),
            ('scatter-pregroup', Scenario('scatter', pregroup=True), 3),
            ('histogram-pregroup', Scenario('histogram', pregroup=True), 3),
            ('image-pregroup', Scenario('image', pregroup=True), 3),
            ('profile-pregroup', Scenario('profile', pregroup=True), 3)]


def run(tier):
    t0 = time.time()
    core.bind()
    stub_canvas()
    total = core.Result()
    cov = dict(states=0, transitions=0, traces_validated_against_impl=0, runs=[])
    for label, scn, depth in tiers(tier):
        ex = hist.Explorer(scn, depth, PROP, label=label, lookahead=300 if label.startswith('base') else 40)
        res = ex.run()
        for v in res.violations:
            v['key'] = '%s|%s|%s' % (v['clause'], label, v['key'].split('|', 1)[1])
        total.merge(res)
        c = ex.coverage()
        for k in ('states', 'transitions', 'traces_validated_against_impl'):
            cov[k] += c[k]
        c['scenario'] = label
        c.pop('levels', None)
        cov['runs'].append(c)
    state_roundtrip(total, tier)
    return core.finish(
        PROP, tier, total, 'model_checking',
        'distinct = canonical (collection, viewer layers, pickers) states; every transition runs the real '
        'Application/Viewer/State code with only canvas drawing stubbed; plus the complete product State '
        'subclass x plain callback property x value palette for the state round trip',
        t0, coverage=cov, confirm=confirm,
        assumptions=['FigureCanvas draw/draw_idle are stubbed (rendering is not observable to the property)',
                     'a dataset removed from the collection is no longer "given" to the viewer when re-appended',
                     'layers are added through add_data, or add_subset for a subset whose dataset is not shown (removed again with remove_subset); remove_layer is applied to dataset layers only (its subset layers then stay until the dataset, the group or remove_data removes them, and new groups add no layer for it)',
                     'pickers: every ComponentIDComboHelper on the viewer state; relevant datasets = datasets of '
                     'the layers (scatter, histogram) or the reference dataset (image, profile)'])


def _scn_for(label):
    for tier in ('thorough', 'quick'):
        for l, scn, d in tiers(tier):
            if l == label:
                return scn
    raise core.EngineError('no scenario %r' % label)


def confirm(v):
    stub_canvas()
    if v['case'].get('kind') == 'state':
        r = core.Result()
        state_roundtrip(r, 'quick')
        return any(x['key'] == v['key'] for x in r.violations)
    scn = _scn_for(v['case'].get('scenario'))
    viol = hist.replay(scn, v['case'], verbose=False)
    return any(x[0] == v['clause'] for x in viol)


def replay(doc):
    stub_canvas()
    if doc['case'].get('kind') == 'state':
        return confirm(doc)
    scn = _scn_for(doc['case'].get('scenario'))
    viol = hist.replay(scn, doc['case'])
    for x in viol:
        print('  violated:', x[0], core._clip(x[1]), core._clip(x[2]))
    return any(x[0] == doc['clause'] for x in viol)
