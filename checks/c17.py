"""C17 - a dataset stays structurally consistent and announces every structural change.

Mode H: BFS over histories of the Data mutation API (valid and invalid arguments) on a real Data,
with and without a hub, against a small structural model; after every step the structure invariants
are evaluated on the real object and the hub log of the step is compared with the model's message table."""
import time
import collections

import numpy as np

from mc import core, hist

PROP = 'C17'

STRUCTURAL = ('DataAddComponentMessage', 'DataRemoveComponentMessage', 'ComponentsChangedMessage',
              'DataReorderComponentMessage', 'DataRenameComponentMessage', 'ComponentReplacedMessage',
              'NumericalDataChangedMessage', 'DataUpdateMessage')

V3 = [1., 2., 3.]


class World(object):

    def __init__(self, scn):
        from glue.core import Data, Hub, HubListener
        from glue.core.message import Message
        self.violations = []
        shape = tuple(scn.shape)
        n = int(np.prod(shape))
        self.d = Data(label='d', x=np.arange(1., n + 1).reshape(shape), y=(np.arange(n) * 1.5 + 2).reshape(shape))
        self.cids = {'x': self.d.id['x'], 'y': self.d.id['y']}
        # model: ordered list of component records
        self.m = []
        for i, pc in enumerate(self.d.pixel_component_ids):
            self.cids['p%d' % i] = pc
            self.m.append(dict(key='p%d' % i, label=pc.label, kind='pixel', deps=[]))
        self.m += [dict(key='x', label='x', kind='main', deps=[]),
                   dict(key='y', label='y', kind='main', deps=[])]
        self.m_shape = shape
        self.m_coords = 'none'
        self.m_label = 'd'
        self.log = []
        self.expected = []
        self.compare_coord_msgs = True
        self.fresh = 0
        self.hub = None
        if scn.hub:
            if scn.collection:
                # the dataset lives in a DataCollection: its hub also serves the link manager, which reacts
                # to the same structural messages
                from glue.core import DataCollection
                self.dc = DataCollection([self.d])
                self.hub = self.dc.hub
            else:
                self.hub = Hub()
            world = self

            class L(HubListener):
                def notify(self, m):
                    world.on_msg(m)
            self.listener = L()
            self.hub.subscribe(self.listener, Message)
            if not scn.collection:
                self.d.register_to_hub(self.hub)

    def on_msg(self, m):
        name = type(m).__name__
        if name not in STRUCTURAL:
            return
        if m.sender is not self.d:
            self.log.append([name, 'WRONG-SENDER'])
            return
        # keep the raw objects; they are resolved to model keys after the step (check())
        what = None
        if hasattr(m, 'component_id'):
            what = ('cid', m.component_id)
        if name == 'ComponentReplacedMessage':
            what = ('pair', m.old, m.new)
        if name == 'DataUpdateMessage':
            what = m.attribute
        if name in ('ComponentsChangedMessage', 'DataReorderComponentMessage'):
            what = None
        self.log.append([name, what])

    def resolved_log(self):
        out = []
        for name, what in self.log:
            if isinstance(what, tuple) and what[0] == 'cid':
                what = self.keyof(what[1])
            elif isinstance(what, tuple) and what[0] == 'pair':
                what = [self.keyof(what[1]), self.keyof(what[2])]
            out.append([name, what])
        return out

    def keyof(self, cid):
        for k, c in self.cids.items():
            if c is cid:
                return k
        return '?' + getattr(cid, 'label', repr(cid))

    def rec(self, key):
        for r in self.m:
            if r['key'] == key:
                return r
        return None


class Scenario(object):

    def __init__(self, hub=True, refresh=('same', 'newshape', 'newcomps', 'newdim'), coords=True,
                 dup_label=True, shape=(3,), collection=False):
        self.collection = collection
        self.shape = shape
        self.hub = hub
        self.refresh = refresh
        self.coords = coords
        self.dup_label = dup_label

    def new_world(self):
        return World(self)

    def opname(self, op):
        return ':'.join(str(x) for x in op)

    def enabled(self, w):
        ops = []
        keys = [r['key'] for r in w.m]
        if 'z' not in keys:
            ops.append(['add', 'z'])
        if self.dup_label and 'x2' not in keys:
            ops.append(['add_dup_label'])          # a second component labelled 'x'
        ops.append(['add_wrong_shape'])
        if 's' not in keys and 'x' in keys and 'y' in keys:
            ops.append(['add_derived', 's'])
        if 's2' not in keys and 's' in keys:
            ops.append(['add_derived', 's2'])
        if self.dup_label and 'sx' not in keys and 'y' in keys:
            ops.append(['add_derived', 'sx'])      # a DERIVED component that is also labelled 'x'
        for k in ('x', 'z', 's'):
            if k in keys:
                ops.append(['remove', k])
        ops.append(['remove_absent'])
        ops.append(['reorder', 'reverse'])
        ops.append(['reorder', 'same'])
        ops.append(['reorder', 'invalid'])
        ops.append(['reorder', 'dup'])
        if 'z' in keys and w.rec('z')['label'] == 'z':
            ops.append(['rename', 'z', 'zz'])
        if 'y' in keys and 'ynew' not in keys:
            ops.append(['update_id', 'y'])
        npix = sum(1 for k in keys if k in ('row', 'row2'))
        if npix < 2 and any(r['kind'] == 'pixel' for r in w.m):
            ops.append(['update_id_pixel'])        # re-identify the first pixel attribute (twice at most)
        if 'x' in keys:
            ops.append(['update_components', 'x'])
            ops.append(['update_components_wrong', 'x'])
        for r in self.refresh:
            ops.append(['refresh', r])
        if self.coords:
            for c in ('none', 'affine', 'identity'):
                if c != w.m_coords:
                    ops.append(['coords', c])
        ops.append(['label', 'e' if w.m_label == 'd' else 'd'])
        return ops

    # -- helpers ----------------------------------------------------------------------
    def _mk_coords(self, kind, ndim):
        from glue.core.coordinates import AffineCoordinates, IdentityCoordinates
        if kind == 'none':
            return None
        if kind == 'identity':
            return IdentityCoordinates(n_dim=ndim)
        m = np.eye(ndim + 1)
        for i in range(ndim):
            m[i, i] = 2.0 + i
            m[i, -1] = 1.0
        return AffineCoordinates(m)

    def _expect_add(self, w, key):
        w.expected += [['DataAddComponentMessage', key], ['ComponentsChangedMessage', None]]

    def _expect_remove(self, w, key):
        w.expected += [['DataRemoveComponentMessage', key], ['ComponentsChangedMessage', None]]

    def _model_remove(self, w, key):
        """Remove key and (transitively) every derived component that depends on it."""
        dependents = [r['key'] for r in w.m if key in r['deps']]
        w.m = [r for r in w.m if r['key'] != key]
        for k in dependents:
            if w.rec(k) is not None:
                self._model_remove(w, k)
        self._expect_remove(w, key)

    def _model_coords(self, w, kind, ndim):
        """World components are dropped and recreated (at the end) when the coordinates change."""
        for r in [r for r in w.m if r['kind'] == 'world']:
            self._model_remove(w, r['key'])
        w.m_coords = kind
        if kind != 'none':
            for i in range(ndim):
                w.fresh += 1
                key = 'w%d_%d' % (i, w.fresh)
                w.m.append(dict(key=key, label=None, kind='world', deps=[]))
                self._expect_add(w, key)
                w.pending_world.append(key)

    def apply(self, w, op):
        from glue.core.component_id import ComponentID
        from glue.core import Data
        k = op[0]
        d = w.d
        w.log = []
        w.expected = []
        w.pending_world = []
        w.compare_coord_msgs = True
        shape = w.m_shape
        try:
            if k == 'add':
                cid = d.add_component(np.arange(int(np.prod(shape)), dtype=float).reshape(shape) + 10, op[1])
                w.cids[op[1]] = cid
                w.m.append(dict(key=op[1], label=op[1], kind='main', deps=[]))
                self._expect_add(w, op[1])
            elif k == 'add_dup_label':
                cid = d.add_component(np.zeros(shape) + 5, 'x')
                w.cids['x2'] = cid
                w.m.append(dict(key='x2', label='x', kind='main', deps=[]))
                self._expect_add(w, 'x2')
            elif k == 'add_wrong_shape':
                try:
                    d.add_component(np.zeros(tuple(s + 1 for s in shape)), 'w')
                    w.violations.append(('invalid-accepted', 'add_component with a wrong shape succeeded', 'ValueError'))
                except ValueError:
                    pass
            elif k == 'add_derived':
                label = op[1]
                if op[1] == 's':
                    link = w.cids['x'] + w.cids['y']
                    deps = ['x', 'y']
                elif op[1] == 'sx':
                    link = w.cids['y'] * 3
                    deps = ['y']
                    label = 'x'
                else:
                    link = w.cids['s'] * 2
                    deps = ['s']
                dcomp = d.add_component_link(link, label)
                w.cids[op[1]] = dcomp.link.get_to_id()
                w.m.append(dict(key=op[1], label=label, kind='derived', deps=deps))
                self._expect_add(w, op[1])
            elif k == 'remove':
                d.remove_component(w.cids[op[1]])
                self._model_remove(w, op[1])
            elif k == 'remove_absent':
                d.remove_component(ComponentID('nope'))
            elif k == 'reorder':
                comps = d.components
                if op[1] == 'reverse':
                    d.reorder_components(comps[::-1])
                    if len(w.m) > 1:
                        w.m = w.m[::-1]
                        w.expected.append(['DataReorderComponentMessage', None])
                elif op[1] == 'same':
                    d.reorder_components(list(comps))
                elif op[1] == 'dup':
                    # right length, only ids of this dataset, but one of them twice (another one left out)
                    try:
                        d.reorder_components(list(comps[1:]) + [comps[1]])
                        w.violations.append(('invalid-accepted', 'reorder_components with a repeated id succeeded',
                                             'ValueError'))
                    except ValueError:
                        pass
                else:
                    try:
                        d.reorder_components(comps[:-1])
                        w.violations.append(('invalid-accepted', 'reorder_components with a missing id succeeded',
                                             'ValueError'))
                    except ValueError:
                        pass
            elif k == 'rename':
                w.cids[op[1]].label = op[2]
                w.rec(op[1])['label'] = op[2]
                w.expected.append(['DataRenameComponentMessage', op[1]])
            elif k == 'update_id':
                new = ComponentID('ynew')
                old = w.cids[op[1]]
                d.update_id(old, new)
                w.cids['ynew'] = new
                w.cids['y_old'] = w.cids.pop('y')
                r = w.rec('y')
                r['key'] = 'ynew'
                r['label'] = 'ynew'
                w.expected.append(['ComponentReplacedMessage', ['y_old', 'ynew']])
                # NOTE: derived components that depend on y keep working through their link objects;
                # the model keeps the dependency under the old key (see check(): dependency by link ids)
                for rr in w.m:
                    rr['deps'] = ['ynew' if x == 'y' else x for x in rr['deps']]
            elif k == 'update_id_pixel':
                r = [r for r in w.m if r['kind'] == 'pixel'][0]
                newkey = 'row2' if (r['key'] == 'row' or 'row' in w.cids) else 'row'
                new = ComponentID(newkey)
                oldkey = r['key']
                d.update_id(w.cids[oldkey], new)
                w.cids[oldkey + '_old'] = w.cids.pop(oldkey)
                w.cids[newkey] = new
                r['key'] = newkey
                r['label'] = newkey
                w.expected.append(['ComponentReplacedMessage', [oldkey + '_old', newkey]])
                for rr in w.m:
                    rr['deps'] = [newkey if x == oldkey else x for x in rr['deps']]
            elif k == 'update_components':
                d.update_components({w.cids[op[1]]: np.zeros(shape) + 9})
                w.expected.append(['NumericalDataChangedMessage', None])
            elif k == 'update_components_wrong':
                try:
                    d.update_components({w.cids[op[1]]: np.zeros(tuple(s + 1 for s in shape))})
                    w.violations.append(('invalid-accepted', 'update_components with a wrong shape succeeded',
                                         'ValueError'))
                except ValueError:
                    pass
            elif k == 'refresh':
                self._refresh(w, op[1])
            elif k == 'coords':
                d.coords = self._mk_coords(op[1], len(shape))
                self._model_coords(w, op[1], len(shape))
            elif k == 'label':
                d.label = op[1]
                w.m_label = op[1]
                w.expected.append(['DataUpdateMessage', 'label'])
            else:
                raise core.EngineError('unknown op %r' % (op,))
        except core.EngineError:
            raise
        except Exception as e:
            import traceback
            w.violations.append(('unexpected-exception', '%s: %s' % (type(e).__name__, e),
                                 '%s succeeds' % self.opname(op), traceback.format_exc()[-600:]))
        # bind freshly created world ids to their model keys (in creation order)
        wids = [c for c in w.d.world_component_ids]
        for key, cid in zip(w.pending_world, wids[-len(w.pending_world):] if w.pending_world else []):
            w.cids[key] = cid
            w.rec(key)['label'] = cid.label

    def _refresh(self, w, which):
        from glue.core import Data
        d = w.d
        if which == 'same':
            o = Data(label=w.m_label, **{r['label']: np.zeros(w.m_shape) + 4 for r in w.m if r['kind'] == 'main'})
        elif which == 'newshape':
            bigger = tuple(s + 1 if i == len(w.m_shape) - 1 else s for i, s in enumerate(w.m_shape))
            o = Data(label=w.m_label, **{r['label']: np.arange(float(np.prod(bigger))).reshape(bigger)
                                         for r in w.m if r['kind'] == 'main'})
        elif which == 'newcomps':
            o = Data(label='other', y=np.zeros(w.m_shape) + 1, q=np.zeros(w.m_shape) + 2)
        elif which == 'newdim':
            other = (2, 2) if len(w.m_shape) == 1 else (3,)
            o = Data(label=w.m_label, **{r['label']: np.zeros(other) for r in w.m if r['kind'] == 'main'})
        else:
            raise core.EngineError(which)
        labels = [r['label'] for r in w.m]
        if len(set(labels)) != len(labels):
            # documented: raises for non-unique labels in the original data; nothing changes
            try:
                d.update_values_from_data(o)
                w.violations.append(('invalid-accepted', 'refresh with duplicate labels succeeded', 'ValueError'))
            except ValueError:
                pass
            return
        d.update_values_from_data(o)
        new_main = [c.label for c in o.main_components]
        new_all = [c.label for c in o.components]
        ndim_changed = len(o.shape) != len(w.m_shape)
        # model: drop components (main or derived) whose label is not in the new data, keep order
        for r in list(w.m):
            if r['kind'] in ('main', 'derived') and r['label'] not in new_all and w.rec(r['key']) is not None:
                self._model_remove(w, r['key'])
        for lab in new_main:
            if lab not in [r['label'] for r in w.m]:
                w.fresh += 1
                key = '%s_%d' % (lab, w.fresh)
                w.m.append(dict(key=key, label=lab, kind='main', deps=[]))
                w.cids[key] = None     # resolved below
                self._expect_add(w, key)
        for r in w.m:
            if w.cids.get(r['key'], 0) is None:
                w.cids[r['key']] = [c for c in d.components if c.label == r['label']][-1]
        w.m_shape = tuple(o.shape)
        if o.label != w.m_label:
            w.m_label = o.label
            w.expected.append(['DataUpdateMessage', 'label'])
        if w.m_coords != 'none':
            self._model_coords(w, 'none', len(w.m_shape))
        w.expected.append(['NumericalDataChangedMessage', None])
        if ndim_changed:
            # pixel attributes must be rebuilt for the new dimensionality; which add/remove messages
            # accompany that is not specified, so coordinate-component messages are not compared here
            w.compare_coord_msgs = False
            w.m = [r for r in w.m if r['kind'] != 'pixel']
            for i, cid in enumerate(d.pixel_component_ids):
                key = 'p%d_%d' % (i, w.fresh)
                w.cids[key] = cid
                w.m.insert(i, dict(key=key, label=cid.label, kind='pixel', deps=[]))
            # where the re-created pixel attributes are listed relative to the others is not specified:
            # the model adopts the real position of every record for this step (set equality, uniqueness,
            # shapes, pixel/world counts and lookup are still checked; the order is compared again afterwards)
            pos = {}
            for i, c in enumerate(d.components):
                pos[w.keyof(c)] = i
            w.m.sort(key=lambda r: pos.get(r['key'], 10 ** 6))

    # -- oracle ------------------------------------------------------------------------
    def check(self, w):
        out = []
        d = w.d
        comps = d.components
        # S1 shapes
        if tuple(d.shape) != tuple(w.m_shape):
            out.append(('shape', list(d.shape), list(w.m_shape)))
        for c in comps:
            try:
                shp = tuple(np.shape(d[c]))
            except Exception as e:
                out.append(('component-unreadable', '%s: %s: %s' % (c.label, type(e).__name__, e), 'readable'))
                continue
            if shp != tuple(d.shape):
                out.append(('component-shape', dict(component=c.label, shape=shp), dict(shape=tuple(d.shape))))
        # S2 pixel / world attributes
        pix = d.pixel_component_ids
        if len(pix) != d.ndim or len(set(map(id, pix))) != len(pix) or \
                any(not any(p is c for c in comps) for p in pix):
            out.append(('pixel-attributes', dict(pixel_ids=[p.label for p in pix], ndim=d.ndim,
                                                 in_components=[any(p is c for c in comps) for p in pix]),
                        'exactly one pixel attribute per dimension, all listed in components'))
        wor = d.world_component_ids
        nw = d.ndim if d.coords is not None else 0
        if len(wor) != nw or any(not any(x is c for c in comps) for x in wor):
            out.append(('world-attributes', dict(world_ids=[x.label for x in wor], ndim=d.ndim,
                                                 coords=type(d.coords).__name__), '%d world attributes' % nw))
        # S3 unique ids in model order
        if len(set(map(id, comps))) != len(comps):
            out.append(('duplicate-ids', [c.label for c in comps], 'unique'))
        got = [w.keyof(c) for c in comps]
        want = [r['key'] for r in w.m]
        if got != want:
            if sorted(got) != sorted(want):
                out.append(('component-set', got, want))
            else:
                out.append(('component-order', got, want))
        # S4 lookup by name (docstring precedence main > derived > coordinate)
        labels = sorted(set([r['label'] for r in w.m if r['label']] + ['x', 'z', 'zz', 'nope']))
        for lab in labels:
            exp = None
            for kinds in (('main',), ('derived',), ('pixel', 'world')):
                hits = [r['key'] for r in w.m if r['kind'] in kinds and r['label'] == lab]
                if len(hits) == 1:
                    exp = hits[0]
                    break
                if len(hits) > 1:
                    exp = None
                    break
            r = d.find_component_id(lab)
            g = None if r is None else w.keyof(r)
            if g != exp:
                out.append(('lookup-by-name', dict(label=lab, found=g), dict(expected=exp)))
        # messages of the last step
        if w.hub is not None:
            coord_keys = set(r['key'] for r in w.m if r['kind'] in ('pixel', 'world'))

            def keep(e):
                if w.compare_coord_msgs:
                    return True
                return e[0] not in ('DataAddComponentMessage', 'DataRemoveComponentMessage', 'ComponentsChangedMessage')
            g = sorted(core.jdump(e) for e in w.resolved_log() if keep(e))
            x = sorted(core.jdump(e) for e in w.expected if keep(e))
            if g != x:
                cg, cx = collections.Counter(g), collections.Counter(x)
                out.append(('announcements', dict(spurious=sorted((cg - cx).elements()),
                                                  missing=sorted((cx - cg).elements())),
                            'hub log of the step == documented messages'))
        return out

    def canon(self, w):
        d = w.d
        return dict(m=[[r['key'].split('_')[0], r['label'], r['kind'], r['deps']] for r in w.m],
                    shape=list(d.shape), coords=type(d.coords).__name__, label=d.label,
                    comps=[[c.label, type(d.get_component(c)).__name__] for c in d.components],
                    pix=[c.label for c in d.pixel_component_ids], world=[c.label for c in d.world_component_ids])


def tiers(tier):
    if tier == 'quick':
        return [('hub', Scenario(hub=True), 4), ('nohub', Scenario(hub=False, dup_label=False), 3),
                ('hub-norefresh', Scenario(hub=True, refresh=(), dup_label=False), 5),
                ('hub-2d', Scenario(hub=True, dup_label=False, shape=(2, 2)), 4),
                ('in-collection', Scenario(hub=True, dup_label=False, collection=True), 3),
                ('hub-3d-coords', Scenario(hub=True, dup_label=False, refresh=('same',), shape=(2, 1, 2)), 4)]
    return [('hub', Scenario(hub=True), 5), ('nohub', Scenario(hub=False), 4),
            ('hub-norefresh', Scenario(hub=True, refresh=()), 6),
            ('in-collection', Scenario(hub=True, collection=True), 4),
            ('in-collection-2d', Scenario(hub=True, collection=True, dup_label=False, shape=(2, 2)), 4),
            ('hub-2d', Scenario(hub=True, shape=(2, 2)), 5), ('nohub-2d', Scenario(hub=False, shape=(2, 2)), 4),
            ('hub-3d-coords', Scenario(hub=True, dup_label=False, refresh=('same', 'newcomps'), shape=(2, 1, 2)), 5)]


def run(tier):
    t0 = time.time()
    total = core.Result()
    cov = dict(states=0, transitions=0, traces_validated_against_impl=0, runs=[])
    for label, scn, depth in tiers(tier):
        ex = hist.Explorer(scn, depth, PROP, label=label)
        total.merge(ex.run())
        c = ex.coverage()
        for k in ('states', 'transitions', 'traces_validated_against_impl'):
            cov[k] += c[k]
        c['scenario'] = label
        cov['runs'].append(c)
    return core.finish(
        PROP, tier, total, 'model_checking',
        'distinct = canonical (model component list, real component list/kinds, shape, coords, label); every '
        'transition runs the real Data API and compares structure and the hub log of that step with the model',
        t0, coverage=cov, confirm=confirm,
        assumptions=['messages of one step are compared as a multiset (order inside a step is not specified)',
                     'only structural message classes are compared; link-manager bookkeeping messages ignored',
                     'pixel/world attributes are not removed through remove_component (API misuse)',
                     'when a refresh changes the number of dimensions, add/remove announcements for coordinate '
                     'attributes are not compared (unspecified), the structure invariants are'])


def _scn_for(label):
    for tier in ('thorough', 'quick'):
        for l, scn, d in tiers(tier):
            if l == label:
                return scn
    raise core.EngineError('no scenario %r' % label)


def confirm(v):
    scn = _scn_for(v['case'].get('scenario'))
    viol = hist.replay(scn, v['case'], verbose=False)
    return any(x[0] == v['clause'] for x in viol)


def replay(doc):
    scn = _scn_for(doc['case'].get('scenario'))
    viol = hist.replay(scn, doc['case'])
    for x in viol:
        print('  violated:', x)
    return any(x[0] == doc['clause'] for x in viol)
