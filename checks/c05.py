"""C05 - results always reflect the current data, regions and links - never a stale cache.

Mode H without de-duplication (cache contents are the state and are identity-keyed): for each selection
kind, every history of {evaluate ops, mutate ops} up to the length bound is executed on real objects.  The
logical effect of every mutation is tracked in a tiny parameter record; after every history ALL observables
(masks with/without view, through the subset and through Data.get_mask, statistic, histogram, derived value)
must equal those of a world FRESHLY CONSTRUCTED from the final parameters and never evaluated before."""
import time
import operator

import numpy as np

from mc import core, hist

PROP = 'C05'

XPAL = [np.array([1., 2., 3., 4., 5., 6.]), np.array([6., 5., 1., 2., 4., 3.]), np.array([3., 3., 6., 1., 1., 5.]),
        np.array([1., np.nan, 3., 4., np.nan, 6.])]      # the last palette has NaNs (filtered by finite=True)
YPAL = [np.array([6., 1., 5., 2., 4., 3.]), np.array([2., 2., 6., 5., 1., 4.])]
CPAL = [np.array(['a', 'b', 'a', 'c', 'b', 'a']), np.array(['c', 'a', 'b', 'b', 'a', 'c'])]
IMG = [np.array([[1., 1., 5.], [1., 5., 5.], [9., 1., 1.]]), np.array([[1., 5., 5.], [5., 5., 1.], [1., 1., 1.]])]


JT = [np.array([1., 5., 9., 2.]), np.array([6., 1., 1., 1.])]
IMAGE_KINDS = ('floodfill', 'floodfill_linked', 'slice_aligned')
TWO_IMAGE_KINDS = ('floodfill_linked', 'slice_aligned')


def P0(kind):
    import copy
    return dict(x=0, y=0, c=0, n=6, img=0, link=True, s=copy.deepcopy(KINDS[kind]['s0']))


class World(object):
    """Real glue objects built from a parameter record p (and a selection kind)."""

    def __init__(self, kind, attached, p, listen=False):
        from glue.core import Data, DataCollection
        from glue.core.component_link import ComponentLink
        self.violations = []
        self.kind = kind
        self.attached = attached
        self.p = p
        n = p['n']
        self.d = Data(label='d', x=XPAL[p['x']][:n].copy(), y=YPAL[p['y']][:n].copy(), cat=CPAL[p['c']][:n].copy())
        self.cx, self.cy, self.cc = self.d.id['x'], self.d.id['y'], self.d.id['cat']
        self.d.add_component_link(self.cx + self.cy, 'sum')
        self.csum = self.d.id['sum']
        # the second dataset / the image exist only for the kinds that use them (world building dominates cost)
        datasets = [self.d]
        self.d2 = self.img = self.img2 = self.cu = self.cv = self.cv2 = self.link = None
        if kind == 'linked':
            self.d2 = Data(label='d2', u=np.array([2., 4., 6., 8., 10., 12.]))
            self.cu = self.d2.id['u']
            datasets.append(self.d2)
        self.j2 = self.j3 = self.jz = None
        if kind == 'keyjoin':
            # d -- j2 -- j3 joined by key in a chain; the selection lives on j3 and reaches d through j2.
            # jz is joined to nothing: its selections can be evaluated nowhere else
            self.d.add_component(np.array([0, 1, 2, 0, 1, 2])[:n], 'kk')
            self.j2 = Data(label='j2', k=np.array([0, 1, 2]), k2=np.array([7, 8, 9]))
            self.j3 = Data(label='j3', k3=np.array([9, 8, 7, 7]), t=JT[p.get('jt', 0)].copy())
            self.jz = Data(label='jz', q=np.array([1., 2.]))
            self.d.join_on_key(self.j2, 'kk', 'k')
            self.j2.join_on_key(self.j3, 'k2', 'k3')
            datasets += [self.j2, self.j3, self.jz]
        if kind in IMAGE_KINDS:
            self.img = Data(label='img', v=IMG[p['img']].copy())
            self.cv = self.img.id['v']
            datasets.append(self.img)
        if kind in TWO_IMAGE_KINDS:
            # a second, pixel-aligned image: the flood fill of img is evaluated ON img2
            self.img2 = Data(label='img2', v2=IMG[0].copy() * 2 + 1)
            self.cv2 = self.img2.id['v2']
            datasets.append(self.img2)
        self.dc = DataCollection(datasets)
        if kind == 'linked':
            factor = p.get('linkfn', 2)
            self.link = ComponentLink([self.cx], self.cu, using=lambda x: factor * x)
            if p['link']:
                self.dc.add_link(self.link)
        if kind in TWO_IMAGE_KINDS:
            from glue.core.link_helpers import LinkSame
            # (slice_aligned: the first image's axes are linked to the second image's axes in REVERSE order when
            # p['link'] == 'T', so that the re-ordering of the slices matters)
            pairs = list(zip(self.img.pixel_component_ids, self.img2.pixel_component_ids))
            if p['link'] == 'T':
                pairs = list(zip(self.img.pixel_component_ids, self.img2.pixel_component_ids[::-1]))
            self.pixel_links = [LinkSame(a, b) for a, b in pairs]
            if p['link']:
                self.dc.set_links(self.pixel_links)
        self.target = self.img2 if kind in TWO_IMAGE_KINDS else (self.img if kind == 'floodfill' else self.d)
        self.state = KINDS[kind]['make'](self, p['s'])
        self.seen_on_change = None
        if listen:
            # a hub listener that re-evaluates the selection when it is told that the data changed
            # (what every viewer does); what it sees must already reflect the new values
            from glue.core.hub import HubListener
            from glue.core.message import NumericalDataChangedMessage
            world = self

            class Watcher(HubListener):
                def notify(self, msg):
                    try:
                        world.seen_on_change = np.asarray(world.target.get_mask(world.state)).tolist()
                    except Exception as e:
                        world.seen_on_change = 'EXC:' + type(e).__name__
            self.watcher = Watcher()
            self.dc.hub.subscribe(self.watcher, NumericalDataChangedMessage)
        self.group = None
        if attached:
            self.group = self.dc.new_subset_group(subset_state=self.state, label='g')
            # the group keeps the very object that we mutate later
            if self.group.subset_state is not self.state:
                raise core.EngineError('group copied the state')

    # -- observables ---------------------------------------------------------------
    def observe(self):
        from glue.core.exceptions import IncompatibleAttribute
        out = {}
        t = self.target
        att = self.cv2 if self.kind in TWO_IMAGE_KINDS else (self.cv if self.kind == 'floodfill' else self.cx)
        view = (slice(0, 2), slice(1, 3)) if self.kind in IMAGE_KINDS else (slice(1, 5),)

        def guard(name, fn):
            try:
                r = fn()
                out[name] = np.asarray(r).tolist() if r is not None else None
            except IncompatibleAttribute:
                out[name] = 'IncompatibleAttribute'
            except Exception as e:
                out[name] = 'EXC:' + type(e).__name__
        guard('mask', lambda: t.get_mask(self.state))
        guard('mask_view', lambda: t.get_mask(self.state, view=view))
        if self.attached:
            sub = [s for s in t.subsets if s.group is self.group][0]
            guard('subset_mask', lambda: sub.to_mask())
            guard('subset_mask_view', lambda: sub.to_mask(view))
        guard('mean', lambda: np.round(t.compute_statistic('mean', att, subset_state=self.state), 9))
        if self.kind not in IMAGE_KINDS:
            # a SECOND statistic through the same selection object (the first one must not have damaged anything)
            guard('sum_y', lambda: np.round(t.compute_statistic('sum', self.cy, subset_state=self.state), 9))
        guard('hist', lambda: t.compute_histogram([att], range=[[0, 10]], bins=[5], subset_state=self.state))
        guard('derived', lambda: self.d[self.csum])
        if self.cu is not None:
            guard('linked', lambda: self.d[self.cu])
        return out


# ---------------------------------------------------------------------------------------------
# evaluation ops (shared)
# ---------------------------------------------------------------------------------------------
def ev_mask(w):
    _quiet(lambda: w.target.get_mask(w.state))


def ev_view(w):
    view = (slice(0, 2), slice(1, 3)) if w.kind in IMAGE_KINDS else (slice(1, 5),)
    _quiet(lambda: w.target.get_mask(w.state, view=view))


def ev_subset(w):
    if w.attached:
        sub = [s for s in w.target.subsets if s.group is w.group][0]
        _quiet(lambda: sub.to_mask())
    else:
        att = w.cv2 if w.kind in TWO_IMAGE_KINDS else (w.cv if w.kind == 'floodfill' else w.cx)
        _quiet(lambda: w.target.compute_statistic('mean', att, subset_state=w.state))


def _quiet(fn):
    try:
        fn()
    except Exception:
        pass


EVALS = [('E:mask', ev_mask), ('E:view', ev_view), ('E:subset', ev_subset)]


# ---------------------------------------------------------------------------------------------
# data / link mutations (shared): (name, real(w), model(p), applicable(kind))
# ---------------------------------------------------------------------------------------------
def m_upd_x(k):
    def real(w):
        w.d.update_components({w.cx: XPAL[k][:w.p['n']].copy()})

    def model(p):
        p['x'] = k
    return ('upd:x:%d' % k, real, model)


def m_upd_img():
    def real(w):
        w.img.update_components({w.cv: IMG[1].copy()})

    def model(p):
        p['img'] = 1
    return ('upd:img', real, model)


def m_upd_cat():
    def real(w):
        from glue.core.component import CategoricalComponent
        w.d.update_components({w.cc: CPAL[1][:w.p['n']].copy()})

    def model(p):
        p['c'] = 1
    return ('upd:cat', real, model)


def m_refresh(n):
    def real(w):
        from glue.core import Data
        o = Data(label='d', x=XPAL[2][:n].copy(), y=YPAL[1][:n].copy(), cat=CPAL[1][:n].copy())
        o.add_component_link(o.id['x'] + o.id['y'], 'sum')
        w.d.update_values_from_data(o)

    def model(p):
        p['x'], p['y'], p['c'], p['n'] = 2, 1, 1, n
    return ('refresh:n%d' % n, real, model)


def m_link(on):
    def real(w):
        if on:
            w.dc.add_link(w.link)
        else:
            w.dc.remove_link(w.link)

    def model(p):
        p['link'] = on
    return ('link:%s' % ('add' if on else 'remove'), real, model)


def m_link_swap():
    """replace the registered link by another link to the SAME attribute (reachable set unchanged)"""
    def real(w):
        from glue.core.component_link import ComponentLink
        new = ComponentLink([w.cx], w.cu, using=lambda x: 3 * x)
        w.dc.set_links([new])
        w.link = new

    def model(p):
        p['linkfn'] = 3
        p['link'] = True
    return ('link:swap', real, model)


# ---------------------------------------------------------------------------------------------
# selection kinds: make(w, s) builds the state from the state parameters s (defaults applied),
# muts: state mutations (name, real(w), model(p))
# ---------------------------------------------------------------------------------------------
def sp(s, key, default=None):
    return s[key]


def setter(path, attr, value, key, name=None):
    """state mutation: set <attr> on the (sub)state reached by <path> to <value>; model: s[key]=value"""
    def real(w):
        st = w.state
        for a in path:
            st = getattr(st, a)
        setattr(st, attr, value)

    def model(p):
        p['s'][key] = value
    return (name or 'set:%s%s' % ('.'.join(path) + '.' if path else '', attr), real, model)


def rect(cx, cy):
    from glue.core.roi import RectangularROI
    return RectangularROI(cx - 1.6, cx + 1.6, cy - 1.6, cy + 1.6)


def mover(path, key, new, name):
    """state.move_to(*new) on the (sub)state reached by path; model: s[key] = new centre"""
    def real(w):
        st = w.state
        for a in path:
            st = getattr(st, a)
        st.move_to(*new)

    def model(p):
        p['s'][key] = list(new)
    return (name, real, model)


def range_mover(new, name):
    """composite.move_to(c) where state1 is a range: the range keeps its width, centre moves to c"""
    def real(w):
        w.state.move_to(new)

    def model(p):
        half = (p['s']['hi'] - p['s']['lo']) / 2.
        p['s']['lo'], p['s']['hi'] = new - half, new + half
    return (name, real, model)


def roi_edit(path, key, new, name):
    """direct edit of the ROI object behind a state"""
    def real(w):
        st = w.state
        for a in path:
            st = getattr(st, a)
        st.roi.move_to(*new)

    def model(p):
        p['s'][key] = list(new)
    return (name, real, model)


def roi_edit_reassign(path, key, new, name):
    """edit the ROI object in place and assign the SAME object back through the state's setter"""
    def real(w):
        st = w.state
        for a in path:
            st = getattr(st, a)
        r = st.roi
        r.move_to(*new)
        st.roi = r

    def model(p):
        p['s'][key] = list(new)
    return (name, real, model)


def catroi_edit_reassign():
    def real(w):
        r = w.state.roi
        r.update_categories(['b'])
        w.state.roi = r

    def model(p):
        p['s']['cats'] = ['b']
    return ('edit+set:roi', real, model)


def mk_ineq(w, s):
    return w.cx > sp(s, 'thr', 2.5)


def mk_and(w, s):
    return (w.cx > sp(s, 'thr', 2.5)) & (w.cy < sp(s, 'thr2', 4.5))


def mk_or_range(w, s):
    from glue.core.subset import RangeSubsetState
    lo, hi = sp(s, 'lo', 1.5), sp(s, 'hi', 3.5)
    return RangeSubsetState(lo, hi, att=w.cx) | (w.cy > sp(s, 'thr', 5.5))


def mk_invert(w, s):
    return ~(w.cx > sp(s, 'thr', 2.5))


def mk_multior(w, s):
    from glue.core.subset import MultiOrState, RangeSubsetState
    return MultiOrState([w.cx > sp(s, 'thr', 4.5), RangeSubsetState(sp(s, 'lo', 0.5), sp(s, 'hi', 2.5), att=w.cy)])


def mk_and_roi(w, s):
    from glue.core.subset import RoiSubsetState
    c = sp(s, 'cen', [2.5, 4.0])
    return RoiSubsetState(w.cx, w.cy, rect(*c)) & (w.cx > sp(s, 'thr', 1.5))


def mk_roi(w, s):
    from glue.core.subset import RoiSubsetState
    c = sp(s, 'cen', [2.5, 4.0])
    return RoiSubsetState(w.cx, w.cy, rect(*c))


def mk_deep(w, s):
    return ((w.cx > sp(s, 'thr', 2.5)) & (w.cy < sp(s, 'thr2', 4.5))) | (~(w.cx > sp(s, 'thr3', 4.5)))


def mk_catroi(w, s):
    from glue.core.subset import CategoricalROISubsetState
    from glue.core.roi import CategoricalROI
    return CategoricalROISubsetState(att=w.cc, roi=CategoricalROI(sp(s, 'cats', ['a'])))


def mk_category(w, s):
    from glue.core.subset import CategorySubsetState
    return CategorySubsetState(w.cc, sp(s, 'codes', [0]))


def mk_element(w, s):
    from glue.core.subset import ElementSubsetState
    return ElementSubsetState(indices=sp(s, 'idx', [1, 3]), data=w.d)


def mk_mask(w, s):
    from glue.core.subset import MaskSubsetState
    m = np.array(sp(s, 'mask', [True, False, True, False, False, True]))
    return MaskSubsetState(m, w.d.pixel_component_ids)


def mk_floodfill(w, s):
    from glue.core.subset import FloodFillSubsetState
    return FloodFillSubsetState(w.img, w.cv, sp(s, 'start', (0, 0)), sp(s, 'thr', 1.2))


def mk_slice_aligned(w, s):
    """a slice selection defined on img, in a composite with a condition on img2's own values, evaluated on img2:
    the slices reach img2 only through the record of pixel-aligned datasets, which follows the links"""
    from glue.core.subset import SliceSubsetState
    return SliceSubsetState(w.img, [slice(0, 2), slice(1, 3)]) | (w.cv2 > sp(s, 'thr', 18.0))


def m_pixel_links(how):
    """all pixel links replaced in ONE link-manager update: none, straight, or with the axes crossed"""
    def real(w):
        from glue.core.link_helpers import LinkSame
        a, b = w.img.pixel_component_ids, w.img2.pixel_component_ids
        if how == 'clear':
            w.dc.set_links([])
        else:
            w.dc.set_links([LinkSame(x, y) for x, y in zip(a, b if how == 'straight' else b[::-1])])

    def model(p):
        p['link'] = {'clear': False, 'straight': True, 'crossed': 'T'}[how]
    return ('links:%s' % how, real, model)


def mk_keyjoin(w, s):
    return w.j3.id['t'] > sp(s, 'thr', 4.0)


def m_upd_jt():
    def real(w):
        w.j3.update_components({w.j3.id['t']: JT[1].copy()})

    def model(p):
        p['jt'] = 1
    return ('upd:j3.t', real, model)


def ev_unrelated_on_partner(w):
    """a selection that can be evaluated nowhere in the join graph, asked of the dataset in the MIDDLE of the
    chain: it legitimately fails, and must leave nothing behind"""
    _quiet(lambda: w.j2.get_mask(w.jz.id['q'] > 0))
    _quiet(lambda: w.j3.get_mask(w.jz.id['q'] > 0))


def mk_linked(w, s):
    return w.cu > sp(s, 'thr', 5.0)


def catroi_set_roi():
    def real(w):
        from glue.core.roi import CategoricalROI
        w.state.roi = CategoricalROI(['b', 'c'])

    def model(p):
        p['s']['cats'] = ['b', 'c']
    return ('set:roi', real, model)


def catroi_edit_roi():
    def real(w):
        w.state.roi.update_categories(['c'])

    def model(p):
        p['s']['cats'] = ['c']
    return ('edit:roi.update_categories', real, model)


def mask_set():
    new = [False, True, True, False, True, False]

    def real(w):
        w.state.mask = np.array(new)

    def model(p):
        p['s']['mask'] = new
    return ('set:mask', real, model)


DATA = [m_upd_x(1), m_refresh(6)]
KINDS = {
    'ineq_y': dict(s0=dict(thr=1.5), make=lambda w, s: w.cy > s['thr'],
                   muts=[m_upd_x(3), m_upd_x(1), m_refresh(6), setter([], 'right', 3.5, 'thr')]),
    'ineq': dict(s0=dict(thr=2.5), make=mk_ineq, muts=DATA + [m_upd_x(2), m_refresh(4), setter([], 'right', 3.5, 'thr')]),
    'and': dict(s0=dict(thr=2.5, thr2=4.5), make=mk_and, muts=DATA + [setter(['state1'], 'right', 3.5, 'thr'),
                                          setter(['state2'], 'right', 2.5, 'thr2')]),
    'or_range': dict(s0=dict(lo=1.5, hi=3.5, thr=5.5), make=mk_or_range, muts=DATA + [setter(['state1'], 'lo', 2.5, 'lo'),
                                                     setter(['state2'], 'right', 3.5, 'thr'),
                                                     range_mover(4.0, 'move_to:composite')]),
    'invert': dict(s0=dict(thr=2.5), make=mk_invert, muts=DATA + [setter(['state1'], 'right', 3.5, 'thr')]),
    'multior': dict(s0=dict(thr=4.5, lo=0.5, hi=2.5), make=mk_multior, muts=DATA + [m_refresh(4)]),
    'and_roi': dict(s0=dict(cen=[2.5, 4.0], thr=1.5), make=mk_and_roi, muts=DATA + [mover([], 'cen', (4.5, 3.0), 'move_to:composite'),
                                                   mover(['state1'], 'cen', (3.5, 2.0), 'move_to:child'),
                                                   roi_edit(['state1'], 'cen', (5.0, 4.0), 'edit:child.roi.move_to'),
                                                   roi_edit_reassign(['state1'], 'cen', (3.0, 3.0), 'edit+set:child.roi')]),
    'roi': dict(s0=dict(cen=[2.5, 4.0]), make=mk_roi, muts=DATA + [mover([], 'cen', (4.5, 3.0), 'move_to'),
                                          roi_edit([], 'cen', (5.0, 4.0), 'edit:roi.move_to')]),
    'deep': dict(s0=dict(thr=2.5, thr2=4.5, thr3=4.5), make=mk_deep, muts=DATA + [setter(['state1', 'state1'], 'right', 3.5, 'thr'),
                                            setter(['state2', 'state1'], 'right', 5.5, 'thr3')]),
    'catroi': dict(s0=dict(cats=['a']), make=mk_catroi, muts=[m_refresh(6), m_refresh(4), catroi_set_roi(), catroi_edit_roi(), catroi_edit_reassign()]),
    'category': dict(s0=dict(codes=[0]), make=mk_category, muts=[m_refresh(6), m_refresh(4), setter([], 'categories', [1, 2], 'codes')]),
    'element': dict(s0=dict(idx=[1, 3]), make=mk_element, muts=DATA + [setter([], 'indices', [0, 2, 4], 'idx')]),
    'mask': dict(s0=dict(mask=[True, False, True, False, False, True]), make=mk_mask, muts=DATA + [mask_set()]),
    # the flood fill of one image, under a composite, evaluated on ANOTHER pixel-aligned image: that mask is keyed
    # on the other dataset but depends on this one's values
    'floodfill_linked': dict(s0=dict(start=(0, 0), thr=1.2), make=lambda w, s: ~mk_floodfill(w, s),
                             muts=[m_upd_img(), setter(['state1'], 'threshold', 5.5, 'thr')]),
    'slice_aligned': dict(s0=dict(thr=18.0), make=mk_slice_aligned,
                          muts=[m_pixel_links('clear'), m_pixel_links('straight'), m_pixel_links('crossed'),
                                setter(['state2'], 'right', 4.0, 'thr')]),
    'keyjoin': dict(s0=dict(thr=4.0), make=mk_keyjoin, muts=[m_upd_jt(), setter([], 'right', 1.5, 'thr')],
                    evals=[('E:unrelated-on-partner', ev_unrelated_on_partner)]),
    'floodfill': dict(s0=dict(start=(0, 0), thr=1.2), make=mk_floodfill, muts=[m_upd_img(), setter([], 'threshold', 5.5, 'thr'),
                                               setter([], 'start_coords', (2, 0), 'start')]),
    'linked': dict(s0=dict(thr=5.0), make=mk_linked, muts=[m_upd_x(1), m_link(False), m_link(True), m_link_swap(), setter([], 'right', 7.0, 'thr')]),
}


class Scenario(object):

    def __init__(self, kind, attached):
        self.kind = kind
        self.attached = attached
        self.muts = KINDS[kind]['muts']
        self.table = dict((n, (r, m)) for n, r, m in self.muts)
        self.evals = dict(EVALS + KINDS[kind].get('evals', []))

    def new_world(self):
        return World(self.kind, self.attached, P0(self.kind), listen=True)

    def opname(self, op):
        return op[0]

    def enabled(self, w):
        ops = [[n] for n in self.evals]
        for n, r, m in self.muts:
            if n == 'link:add' and w.p['link']:
                continue
            if n == 'link:remove' and not w.p['link']:
                continue
            ops.append([n])
        return ops

    def apply(self, w, op):
        n = op[0]
        try:
            if n in self.evals:
                self.evals[n](w)
            else:
                real, model = self.table[n]
                w.seen_on_change = None
                real(w)
                model(w.p)
                if w.seen_on_change is not None:
                    want = World(self.kind, self.attached, w.p).observe()['mask']
                    if want == 'IncompatibleAttribute':
                        want = 'EXC:IncompatibleAttribute'
                    if core.jdump(w.seen_on_change) != core.jdump(want):
                        w.violations.append(('stale-during-announcement', w.seen_on_change, want,
                                             'mask evaluated by a hub listener while it is told about %s' % n))
        except Exception as e:
            import traceback
            w.violations.append(('mutation-raises', '%s: %s: %s' % (n, type(e).__name__, e), 'succeeds',
                                 traceback.format_exc()[-500:]))

    def check(self, w):
        got = w.observe()
        twin = World(self.kind, self.attached, w.p)       # constructed from the final parameters
        want = twin.observe()
        out = []
        bad = sorted(k for k in want if core.jdump(got.get(k)) != core.jdump(want[k]))
        # the two statistics are also compared with plain numpy on the twin's mask and the known values, since a
        # defect INSIDE compute_statistic would hit the live world and the twin alike
        if self.kind not in IMAGE_KINDS and isinstance(want.get('mask'), list):
            m = np.array(want['mask'], dtype=bool)
            n = w.p['n']
            for name, vals in (('mean', XPAL[w.p['x']][:n]), ('sum_y', YPAL[w.p['y']][:n])):
                keep = m & np.isfinite(vals)
                if name == 'mean':
                    exp = round(float(np.mean(vals[keep])), 9) if keep.any() else None
                else:
                    exp = round(float(np.sum(vals[keep])), 9) if keep.any() else None
                g = got.get(name)
                if isinstance(g, float) and g != g:
                    g = None
                if exp is None:
                    ok = g is None or g == 0.0
                else:
                    ok = isinstance(g, (int, float)) and abs(g - exp) < 1e-6
                if not ok:
                    out.append(('statistic-vs-numpy', {name: got.get(name)}, {name: exp},
                                'kind=%s attached=%s params=%s' % (self.kind, self.attached, core.jdump(w.p))))
        if bad:
            out.append(('stale', {k: got.get(k) for k in bad}, {k: want[k] for k in bad},
                        'kind=%s attached=%s params=%s' % (self.kind, self.attached, core.jdump(w.p))))
        return out

    def canon(self, w):
        return None      # no de-duplication: memo contents are identity-keyed state

    def key_of(self, hist):
        return '>'.join(op[0] for op in hist)


def tiers(tier):
    out = []
    depth = 4 if tier == 'quick' else 5
    for kind in sorted(KINDS):
        for attached in (True, False):
            d = depth
            if tier == 'quick' and not attached and kind in ('deep', 'multior', 'mask', 'element', 'category'):
                d = 3
            out.append(('%s/%s' % (kind, 'attached' if attached else 'free'), Scenario(kind, attached), d))
    return out


def _one(args):
    """One scenario subtree, explored serially inside a worker (subtrees run in parallel)."""
    import os
    label, kind, attached, depth, root = args
    os.environ['VERIF_JOBS'] = '1'
    core.bind()
    scn = Scenario(kind, attached)
    ex = hist.Explorer(scn, depth, PROP, dedup=False, label=label)
    res = ex.run(root=root)
    # keys carry the scenario (selection kind) so that each (kind, history) is its own finding
    for v in res.violations:
        v['key'] = '%s|%s|%s' % (v['clause'], label, v['key'].split('|', 1)[1])
    c = ex.coverage()
    return res, dict(scenario=label, depth=depth, histories=c['transitions'], states=c['states'],
                     pruned=c['pruned_at_violating_states'])


def _jobs(tier):
    """(scenario, depth-1 job) + one job per first operation (subtree), biggest first."""
    core.bind()
    jobs = []
    for label, scn, depth in tiers(tier):
        jobs.append((label, scn.kind, scn.attached, 1, None))
        if depth > 1:
            for op in scn.enabled(scn.new_world()):
                jobs.append((label, scn.kind, scn.attached, depth, [op]))
    jobs.sort(key=lambda j: -j[3])
    return jobs


def run(tier):
    t0 = time.time()
    total = core.Result()
    cov = dict(states=0, transitions=0, traces_validated_against_impl=0, runs=[])
    runs = {}
    for res, c in core.pmap(_one, _jobs(tier)):
        total.merge(res)
        cov['states'] += c['states']
        cov['transitions'] += c['histories']
        cov['traces_validated_against_impl'] += c['histories']
        r = runs.setdefault(c['scenario'], dict(scenario=c['scenario'], depth=0, histories=0, pruned=0))
        r['depth'] = max(r['depth'], c['depth'])
        r['histories'] += c['histories']
        r['pruned'] += c['pruned']
    cov['runs'] = [runs[k] for k in sorted(runs)]
    return core.finish(
        PROP, tier, total, 'model_checking',
        'no de-duplication: every history of evaluate/mutate ops up to the length bound per selection kind, attached '
        '(subset group) and free-standing; distinct = distinct histories; oracle = world freshly constructed from '
        'the final logical parameters, never evaluated before', t0, coverage=cov, confirm=confirm,
        assumptions=['update_components is not applied to categorical components (documented: Component subclasses '
                     'cannot be updated); categorical values change through update_values_from_data',
                     'data 1-d n=6 (n=4 after a refresh) and a 3x3 image; the value palettes are fixed',
                     'histories that reach a violating state are not extended (pruned count in evidence)'])


def _scn_for(label):
    kind, att = label.split('/')
    return Scenario(kind, att == 'attached')


def confirm(v):
    scn = _scn_for(v['case'].get('scenario'))
    viol = hist.replay(scn, v['case'], verbose=False)
    return any(x[0] == v['clause'] for x in viol)


def replay(doc):
    scn = _scn_for(doc['case'].get('scenario'))
    viol = hist.replay(scn, doc['case'])
    for x in viol:
        print('  violated:', x[0], '\n   observed', core._clip(x[1]), '\n   expected', core._clip(x[2]))
    return any(x[0] == doc['clause'] for x in viol)
