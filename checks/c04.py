"""C04 - views of masks and attribute values equal the same view of the full array; IndexedData (Mode I).

Part D ("data"): for every dataset shape x attribute / selection target x view of the alphabet,
``data[cid, view]`` / ``data.get_mask(state, view)`` is compared with ``np.asarray(full)[view]`` where ``full`` is
the same request without a view (computed once, before any view).

Part X ("indexed"): for every index tuple with >= 1 ``None`` over the 2-d / 3-d parents, values, masks,
``compute_statistic`` and ``compute_histogram`` of ``IndexedData(parent, indices)`` are compared with the parent's
slice (values / masks: differential against the parent's full array; statistics / histograms: plain-numpy oracle
computed from the parent's slice); then, for every ordered pair (a, b) of index tuples with the same None-pattern,
a fresh ``IndexedData(parent, a)`` is observed, ``.indices = b`` is assigned and everything is re-checked.

Attribution.  Every attribute a selection reads, every input of a derived attribute and every leaf of a composite is
a target of its own, so a failure of a target that one of its inputs shows alone for the same view is counted
(`failures_explained_by_an_input_target`) and reported once, under the input's key.  In part X a failure that the
parent shows for the translated view is part D's; a statistic that deviates from the definition in exactly the same
way when the parent's compute_statistic is called with the translated view is Data.compute_statistic's (C10) and is
counted, not reported: IndexedData is faithful to its parent there.

Keys: `values|<attribute family>|<view class>|<wrong / raises:Exc>`, `mask|<state class>|<view class>|<...>`,
`indexed|values / mask / stat / hist|...`, `indexed-reindexed|...` (only what a fresh IndexedData at the new
indices does not show).

All world-coordinate matrices, data values and link functions are dyadic rationals, so every float operation is
exact and "equal" means equal (statistics use rtol 1e-12 for the percentile interpolation only).
"""
import time
import itertools
import operator

import numpy as np

from mc import core

PROP = 'C04'

# =====================================================================================================
# view codec: JSON-able descriptors <-> numpy views
# =====================================================================================================


def S(a=None, b=None, c=None):
    return ['s', a, b, c]


def dec_item(it):
    if isinstance(it, int):
        return it
    if it[0] == 's':
        return slice(it[1], it[2], it[3])
    if it[0] == 'a':
        return np.array(it[1], dtype=int)
    if it[0] == 'b':
        return np.array(it[1], dtype=bool)
    raise ValueError(it)


def dec_view(v):
    if v == 'none':
        return None
    if v == 'ellipsis':
        return Ellipsis
    if isinstance(v, list) and v[0] == 't':
        return tuple(dec_item(x) for x in v[1:])
    return dec_item(v)


# DESIGN C04 keeps all-integer views (0-d results) in the alphabet.  They are the source of the 'scalar' findings;
# setting this to False removes exactly those views (and nothing else) from the domain.
SCALAR_RESULT_VIEWS = True

PAL_Q = [S(), S(1), S(None, -1), S(None, None, 2), S(1, None, 2), S(1, 2), S(0, 0)]
PAL_T = PAL_Q + [S(2), S(None, None, 3), S(None, 1), S(1, -1)]
INTS = [0, 1, -1]


def view_alphabet(shape, tier):
    """The statement's view domain for one shape (a superset of checks.c20.view_alphabet minus the
    tuple-with-Ellipsis form, which the statement does not list)."""
    nd = len(shape)
    pal = PAL_Q if tier == 'quick' else PAL_T
    out = ['none', 'ellipsis']
    ents = pal + INTS
    for k in range(1, nd + 1):
        for t in itertools.product(ents, repeat=k):
            out.append(['t'] + list(t))
    # tuples (full length) of equal-shape integer index arrays: 1-d, 2-d, ndim-d, single element, empty
    out.append(['t'] + [['a', [0, s - 1, 0]] for s in shape])
    out.append(['t'] + [['a', [[0, s - 1], [s - 1, 0]]] for s in shape])
    if nd >= 3:   # results with as many dimensions as the data (two different point sets)
        out.append(['t'] + [['a', [[[0, s - 1]], [[s - 1, 0]]]] for s in shape])
        out.append(['t'] + [['a', [[[0, min(1, s - 1)]], [[min(2, s - 1), 0]]]] for s in shape])
    out.append(['t'] + [['a', [1]] for s in shape])
    out.append(['t'] + [['a', []] for s in shape])
    # full-shape boolean masks
    n = int(np.prod(shape))
    out.append(['b', (np.arange(n) % 3 != 1).reshape(shape).tolist()])
    out.append(['b', np.zeros(shape, dtype=bool).tolist()])
    # bare (not wrapped in a tuple) forms
    for s in pal:
        out.append(s)
    for i in INTS:
        out.append(i)
    if nd == 1:
        out.append(['a', [0, shape[0] - 1]])
    return out


def _empty_slice(s, n):
    return len(range(*slice(s[1], s[2], s[3]).indices(n))) == 0


def classify(v, shape):
    """Class of a view for violation keys: none / ellipsis / scalar (0-d result) / basic (slices and ints) /
    intarrays / bare-intarray / bare-boolmask, with the features +empty (a slice selects nothing) and +neg
    (a negative integer index)."""
    if v in ('none', 'ellipsis'):
        return v
    if isinstance(v, int) or v[0] == 's':
        items = [v]
    elif v[0] == 'a':
        return 'bare-intarray'
    elif v[0] == 'b':
        return 'bare-boolmask'
    else:
        items = v[1:]
    if all(isinstance(it, list) and it[0] == 'a' for it in items):
        return 'intarrays' + ('+empty' if np.size(items[0][1]) == 0 else '')
    if any(isinstance(it, list) and it[0] in 'ab' for it in items):
        return 'other'
    ints = [it for it in items if isinstance(it, int)]
    base = 'scalar' if len(ints) == len(shape) else 'basic'
    if any(not isinstance(it, int) and _empty_slice(it, shape[k]) for k, it in enumerate(items)):
        base += '+empty'
    if any(i < 0 for i in ints):
        base += '+neg'
    return base


def trivial(v):
    if v in ('none', 'ellipsis'):
        return True
    if isinstance(v, list) and v[0] == 's':
        return v == S()
    if isinstance(v, list) and v[0] == 't':
        return all(it == S() for it in v[1:])
    return False


# =====================================================================================================
# worlds
# =====================================================================================================
PALETTES = [(1.5, -3.0, 1.0), (2.5, -4.5, 2.0), (0.75, -1.25, 0.5)]   # value scale, value offset, coordinate scale


def _f1(a):
    return a * 0.5 + 1


def _f2(a, b):
    return a - b * 2


def _f3(a):
    return a * 4 - 2


def _swap(a, b):
    return b, a


class World(object):
    pass


def affine(nd, coords, cs):
    m = np.eye(nd + 1)
    for k in range(nd):
        m[k, k] = (2 + k) * cs
        m[k, -1] = k + 1
    if coords == 'coupled' and nd >= 2:
        m[0, 1] = 0.5
        m[1, 0] = 0.25
    return m


def build(shape, coords, seed=None):
    from glue.core import Data, DataCollection
    from glue.core.coordinates import AffineCoordinates
    from glue.core.component_id import ComponentID
    from glue.core.component_link import ComponentLink
    from glue.core.link_helpers import LinkSame

    seed = core.seed() if seed is None else seed
    scale, off, cs = PALETTES[seed % 3]
    shape = tuple(shape)
    nd = len(shape)
    n = int(np.prod(shape))
    w = World()
    w.shape, w.nd, w.n, w.scale, w.off = shape, nd, n, scale, off

    x = ((np.arange(n) * 7) % n).astype(float) * scale + off
    x[1] = np.nan
    if n >= 5:
        x[n - 2] = np.inf
    x = x.reshape(shape)
    i = ((np.arange(n) * 3 + seed) % 5).reshape(shape)
    c = np.array(['abc'[(k + k // 3) % 3] for k in range(n)]).reshape(shape)
    c2 = np.array(['pq'[(k // 2) % 2] for k in range(n)]).reshape(shape)

    d = Data(x=x, i=i, c=c, c2=c2, coords=AffineCoordinates(affine(nd, coords, cs)), label='d')
    pix, wld = d.pixel_component_ids, d.world_component_ids
    d['der'] = d.id['x'] * 2 + d.id['i']
    d['derw'] = wld[-1] - pix[0]
    fn, fn2, fnn, fnpw = ComponentID('fn'), ComponentID('fn2'), ComponentID('fnn'), ComponentID('fnpw')
    d.add_component_link(ComponentLink([d.id['x']], fn, using=_f1))
    d.add_component_link(ComponentLink([d.id['x'], d.id['i']], fn2, using=_f2))
    d.add_component_link(ComponentLink([fn], fnn, using=_f3))
    d.add_component_link(ComponentLink([pix[0], wld[-1]], fnpw, using=_f2))
    # arithmetic attributes written as text (what the "arithmetic attribute" editor creates); the second one refers
    # to the first BEFORE another attribute, the third after it
    from glue.core.parse import ParsedCommand, ParsedComponentLink
    par, parn, parn2 = ComponentID('par'), ComponentID('parn'), ComponentID('parn2')
    d.add_component_link(ParsedComponentLink(par, ParsedCommand('{x} * 2 + {i}', {'x': d.id['x'], 'i': d.id['i']})))
    d.add_component_link(ParsedComponentLink(parn, ParsedCommand('{p} + {i}', {'p': par, 'i': d.id['i']})))
    d.add_component_link(ParsedComponentLink(parn2, ParsedCommand('{w} - {p}', {'p': par, 'w': wld[-1]})))

    d2 = Data(y=np.where(np.isfinite(x), x * 8, x), z=np.zeros(shape), label='e')
    d3 = Data(q=np.zeros(shape), label='u')
    # a table joined to d by key (d.i holds the keys 0..4): its selections reach d only through the join
    dj = Data(k=np.array([0, 1, 2, 3, 4]), v=np.array([5., 1., 4., 2., 3.]), label='j')
    d.join_on_key(dj, 'i', 'k')
    w.dj = dj
    dc = DataCollection([d, d2, d3, dj])
    dc.add_link(LinkSame(d.id['x'], d2.id['y']))
    dc.add_link(ComponentLink([d.id['x'], d.id['i']], d2.id['z'], using=_f2))
    for k in range(nd):
        dc.add_link(LinkSame(pix[k], d2.pixel_component_ids[k]))
    w.d, w.d2, w.d3, w.dc = d, d2, d3, dc

    # name -> (dataset, cid, family, names of the attributes it is computed from)
    last = 'world%d' % (nd - 1)
    A = {}
    A['x'] = (d, d.id['x'], 'stored', [])
    A['i'] = (d, d.id['i'], 'stored', [])
    A['c'] = (d, d.id['c'], 'categorical', [])
    A['c2'] = (d, d.id['c2'], 'categorical', [])
    A['der'] = (d, d.id['der'], 'derived-binary', ['x', 'i'])
    A['derw'] = (d, d.id['derw'], 'derived-binary', ['pix0', last])
    A['fn'] = (d, fn, 'derived-fn', ['x'])
    A['fn2'] = (d, fn2, 'derived-fn', ['x', 'i'])
    A['fnpw'] = (d, fnpw, 'derived-fn', ['pix0', last])
    A['fnn'] = (d, fnn, 'derived-fn-nested', ['fn'])
    A['par'] = (d, par, 'derived-parsed', ['x', 'i'])
    A['parn'] = (d, parn, 'derived-parsed-nested', ['par', 'i'])
    A['parn2'] = (d, parn2, 'derived-parsed-nested', ['par', last])
    A['lnk'] = (d, d2.id['y'], 'linked', [])
    A['lnkz'] = (d, d2.id['z'], 'linked', [])
    A['lnkrev'] = (d2, d.id['x'], 'linked', [])
    for k in range(nd):
        A['pix%d' % k] = (d, pix[k], 'pixel', [])
        A['world%d' % k] = (d, wld[k], 'world', [])
        A['lnkpix%d' % k] = (d, d2.pixel_component_ids[k], 'linked', [])
    w.attrs = A
    w.sels = selection_table(w)
    return w


QUICK_COMPOSITES = [('and', 'ineq_x', 'range_world'), ('or', 'roi_pix', 'slice_full'),
                    ('xor', 'mask_same', 'category'), ('invert', 'slice_step'), ('invert', 'roi_pix'),
                    ('multior', 'ineq_i', 'slice_short', 'element'), ('and', 'roi_vals', 'mask_linked')]


def selection_table(w):
    """name -> (factory() -> SubsetState, state class label, names of the attributes it reads).
    Factories build a fresh state every call."""
    from glue.core import subset as ss
    from glue.core.roi import RectangularROI, PolygonalROI, CategoricalROI, Projected3dROI
    from glue.core.parse import ParsedCommand, ParsedSubsetState
    d, d2, d3 = w.d, w.d2, w.d3
    nd, n, shape, scale, off = w.nd, w.n, w.shape, w.scale, w.off
    pix, wld = d.pixel_component_ids, d.world_component_ids
    cid = d.id
    mid = off + scale * (n // 2 - 0.5)
    lo, hi = off + scale * 0.5, off + scale * (n - 2.5)
    wmid = float(np.asarray(d[wld[-1]]).mean()) + 0.0625
    a1, a0 = pix[-1], pix[-2] if nd >= 2 else pix[-1]
    chk = (np.arange(n) % 4 < 2).reshape(shape)
    sl_pal = [slice(1, None), slice(None, None, 2), slice(None, -1)]
    sl_step = [slice(1, None, 2), slice(0, 3, 2), slice(1, 4, 3)]
    rect_pix = dict(xmin=0.5, xmax=2.5, ymin=-0.5, ymax=1.5)
    last = 'world%d' % (nd - 1)
    p1, p0 = 'pix%d' % (nd - 1), 'pix%d' % max(nd - 2, 0)
    lnkpix = ['lnkpix%d' % k for k in range(nd)]
    T = {}

    def add(name, cls, reads, factory):
        T[name] = (factory, cls, reads)

    add('empty', 'Empty', [], lambda: ss.SubsetState())
    add('join_some', 'KeyJoin', ['i'], lambda: w.dj.id['v'] > 2.5)
    add('join_none', 'KeyJoin', ['i'], lambda: w.dj.id['v'] > 1e9)      # selects nothing on the other side
    add('join_and', 'KeyJoin', ['i'], lambda: (w.dj.id['v'] > 1.5) & (w.dj.id['k'] < 3))
    add('ineq_x', 'Inequality', ['x'], lambda: cid['x'] > mid)
    add('ineq_i', 'Inequality', ['i'], lambda: cid['i'] <= 2)
    add('ineq_xi', 'Inequality', ['x', 'i'], lambda: ss.InequalitySubsetState(cid['x'], cid['i'], operator.lt))
    add('ineq_cat', 'Inequality', ['c'], lambda: cid['c'] == 'a')
    add('ineq_der', 'Inequality', ['der'], lambda: cid['der'] >= 2 * mid)
    add('ineq_fn', 'Inequality', ['fn'], lambda: w.attrs['fn'][1] != _f1(off + scale * 2))
    add('ineq_fnn', 'Inequality', ['fnn'], lambda: w.attrs['fnn'][1] > _f3(_f1(mid)))
    add('ineq_lnk', 'Inequality', ['lnk'], lambda: d2.id['y'] > mid * 8)
    add('ineq_pix', 'Inequality', ['pix0'], lambda: pix[0] >= 1)
    add('ineq_world', 'Inequality', [last], lambda: wld[-1] > wmid)
    add('range_x', 'Range', ['x'], lambda: ss.RangeSubsetState(lo, hi, cid['x']))
    add('range_world', 'Range', ['world0'], lambda: ss.RangeSubsetState(wmid - 100, wmid, wld[0]))
    add('multirange_i', 'MultiRange', ['i'], lambda: ss.MultiRangeSubsetState([(0, 0.5), (2.5, 3.5)], cid['i']))
    add('category', 'Category', ['c'], lambda: ss.CategorySubsetState(cid['c'], [0, 2]))
    add('catroi', 'CategoricalROI', ['c'],
        lambda: ss.CategoricalROISubsetState(cid['c'], CategoricalROI(['a', 'c'])))
    if nd == 1:
        add('catroi2d', 'CategoricalROI2D', ['c', 'c2'],
            lambda: ss.CategoricalROISubsetState2D({'a': {'p'}, 'b': {'p', 'q'}}, cid['c'], cid['c2']))
        add('catmulti', 'CategoricalMultiRange', ['c', 'x'],
            lambda: ss.CategoricalMultiRangeSubsetState({'a': [(lo, mid)], 'c': [(mid, hi)]}, cid['c'], cid['x']))
    add('roi_vals', 'Roi', ['x', 'i'], lambda: ss.RoiSubsetState(cid['x'], cid['i'], RectangularROI(lo, hi, 0.5, 3.5)))
    add('roi_pix', 'Roi', [p1, p0], lambda: ss.RoiSubsetState(a1, a0, RectangularROI(**rect_pix)))
    add('roi_pix_poly', 'Roi', [p1, p0],
        lambda: ss.RoiSubsetState(a1, a0, PolygonalROI([-0.5, 3.6, -0.5], [-0.5, -0.5, 2.6])))
    if nd >= 3:
        add('roi_pix_far', 'Roi', ['pix0', 'pix2'],
            lambda: ss.RoiSubsetState(pix[0], pix[2], RectangularROI(0.5, 1.5, 0.5, 2.5)))
        add('roi3d_pix', 'Roi3d', ['pix0', 'pix1', 'pix2'],
            lambda: ss.RoiSubsetState3d(pix[2], pix[1], pix[0],
                                        Projected3dROI(RectangularROI(0.5, 2.5, 0.5, 1.5), np.eye(4))))
    add('roi_pre', 'RoiNd+pretransform', [p1, p0],
        lambda: ss.RoiSubsetStateNd([a1, a0], RectangularROI(**rect_pix), pretransform=_swap))
    add('roi_pixworld', 'Roi', ['pix0', last],
        lambda: ss.RoiSubsetState(pix[0], wld[-1], RectangularROI(0.5, 9.5, -100, wmid)))
    add('roi3d_vals', 'Roi3d', ['x', 'i', 'der'],
        lambda: ss.RoiSubsetState3d(cid['x'], cid['i'], cid['der'],
                                    Projected3dROI(RectangularROI(lo, hi, 0.5, 3.5), np.eye(4))))
    add('mask_same', 'Mask', [], lambda: ss.MaskSubsetState(chk, d.pixel_component_ids))
    add('mask_linked', 'Mask', lnkpix, lambda: ss.MaskSubsetState(chk, d2.pixel_component_ids))
    add('slice_full', 'Slice', [], lambda: ss.SliceSubsetState(d, sl_pal[:nd]))
    add('slice_short', 'Slice', [], lambda: ss.SliceSubsetState(d, [slice(1, None)]))
    add('slice_step', 'Slice', [], lambda: ss.SliceSubsetState(d, sl_step[-nd:]))
    add('slice_aligned', 'Slice', [], lambda: ss.SliceSubsetState(d2, sl_pal[:nd]))
    add('slice_other', 'Slice', [], lambda: ss.SliceSubsetState(d3, sl_pal[:nd]))
    add('element', 'Element', [], lambda: ss.ElementSubsetState([0, 3, n - 1], d))
    start = np.unravel_index(int(np.argmax(np.asarray(d[cid['i']]).ravel() >= 2)), shape)
    add('flood', 'FloodFill', [], lambda: ss.FloodFillSubsetState(d, cid['i'], tuple(int(s) for s in start), 1.5))
    add('parsed', 'Parsed', ['x'], lambda: ParsedSubsetState(ParsedCommand('{x} > %r' % mid, {'x': cid['x']})))
    return T


def leaf_names(shape):
    return sorted(build(shape, 'coupled', 0).sels)


def ix_state(w, spec):
    """The selection object handed to the IndexedData: ONE object per world and spec, so that the very same
    object is used before and after the indices are changed (a cache keyed on the selection object that misses
    the indices is only visible that way).  The parent-side reference always uses fresh objects."""
    cache = w.__dict__.setdefault('_ix_states', {})
    key = core.jdump(spec)
    if key not in cache:
        cache[key] = make_state(w, spec)
    return cache[key]


def make_state(w, spec):
    """spec: leaf name, or (op, leaf, ...)."""
    from glue.core import subset as ss
    if isinstance(spec, str):
        return w.sels[spec][0]()
    op, kids = spec[0], [w.sels[k][0]() for k in spec[1:]]
    if op == 'invert':
        return ss.InvertState(kids[0])
    if op == 'multior':
        return ss.MultiOrState(kids)
    return {'and': ss.AndState, 'or': ss.OrState, 'xor': ss.XorState}[op](kids[0], kids[1])


# =====================================================================================================
# comparison
# =====================================================================================================

def same(g, e):
    if g.dtype.kind in 'fc' and e.dtype.kind in 'fc':
        return bool(np.all((g == e) | (np.isnan(g) & np.isnan(e))))
    return bool(np.all(g == e))


def symptom(got, exp):
    """None when equal, else a short symptom string."""
    g = np.asarray(got)
    if g.shape != exp.shape:
        return 'shape'
    if g.dtype.kind != exp.dtype.kind:
        return 'dtype'
    if not same(g, exp):
        return 'mismatch'
    return None


def jl(a):
    a = np.asarray(a)
    return dict(shape=list(a.shape), values=a.tolist() if a.size <= 48 else '(%d values)' % a.size)


def one_view(getter, full, venc, only_1d=False):
    """-> ('skip'|'skip1d'|'ok'|symptom, observed, expected)."""
    v = dec_view(venc)
    try:
        exp = np.asarray(full if v is None else full[v])
    except IndexError:
        return 'skip', None, None
    if only_1d and exp.ndim != 1:
        return 'skip1d', None, None
    if exp.ndim == 0 and v is not None and not SCALAR_RESULT_VIEWS:
        return 'skip', None, None
    try:
        got = getter(v)
    except Exception as e:
        return 'raises:%s' % type(e).__name__, repr(e)[:300], jl(exp)
    s = symptom(got, exp)
    if s is None:
        return 'ok', None, None
    return s, jl(got), jl(exp)


# =====================================================================================================
# part D: Data
# =====================================================================================================

def target_getter(w, tgt):
    """-> (getter(view), key family, the attributes / leaves the target is computed from, only-1-d-results flag)."""
    kind, spec = tgt[0], tgt[1]
    if kind == 'attr':
        data, cid, dep, inputs = w.attrs[spec]

        def getter(v):
            return data[cid] if v is None else data[cid, v]
        return getter, dep, [('attr', a) for a in inputs], False
    spec = tuple(spec) if isinstance(spec, list) else spec
    state = make_state(w, spec)
    data = w.d

    def getter(v):
        return data.get_mask(state) if v is None else data.get_mask(state, view=v)
    getter.state = state
    getter.data = data
    if isinstance(spec, str):
        return getter, w.sels[spec][1], [('attr', a) for a in w.sels[spec][2]], w.sels[spec][1] in ONLY_1D
    return (getter, 'composite:' + spec[0], [('sel', k) for k in spec[1:]],
            any(w.sels[k][1] in ONLY_1D for k in spec[1:]))


def explained_by_input(w, inputs, venc):
    """A failure that an input of the target (an attribute a selection reads, an input of a derived attribute,
    a leaf of a composite) shows on its own for the same view is that input's finding: every input is a target
    of its own and is reported there."""
    for inp in inputs:
        g, dep, _, o1 = target_getter(w, inp)
        try:
            st = one_view(g, np.asarray(g(None)), venc, o1)[0]
        except Exception:
            st = 'raises'
        if st not in ('ok', 'skip', 'skip1d'):
            return True
    return False


def eval_target(res, shape, coords, tgt, vencs, base_index=0, stride=1):
    core.reset_globals()
    w = build(shape, coords)
    getter, dep, inputs, only_1d = target_getter(w, tgt)
    # The un-viewed reference comes from a TWIN world, and on the world under test the non-trivial views are
    # requested BEFORE anything asks for the full array: lazily computed per-array state (category codes,
    # memoized masks) must not depend on the full result having been computed first.
    wref = build(shape, coords)
    getter_ref = target_getter(wref, tgt)[0]
    obs = 'values' if tgt[0] == 'attr' else 'mask'
    case0 = dict(part='data', shape=list(shape), coords=coords, target=list(tgt))
    full_codes = None
    try:
        full_raw = getter_ref(None)
        if hasattr(full_raw, 'codes') and hasattr(full_raw, 'categories'):
            # categorical values carry integer codes (what statistics, histograms and plots use): the codes of a
            # view must be the view of the codes, numbered against the categories of the FULL array
            full_codes = np.array(full_raw.codes)
        full = np.asarray(full_raw)
    except Exception as e:
        res.violation('full-raises', '%s|%s|none|raises:%s' % (obs, dep, type(e).__name__),
                      dict(case0, view='none'), repr(e), 'the full array')
        return
    if full.shape != tuple(shape) or (obs == 'mask' and full.dtype != bool):
        res.violation('full-shape', '%s|%s|none|wrong' % (obs, dep), dict(case0, view='none'),
                      dict(shape=full.shape, dtype=str(full.dtype)), dict(shape=shape))
        return
    full0 = full.copy()
    order = [k for k, v in enumerate(vencs) if not trivial(v)] + [k for k, v in enumerate(vencs) if trivial(v)]
    for k in order:
        venc = vencs[k]
        st, got, exp = one_view(getter, full, venc, only_1d)
        if st == 'skip':
            res.count('views_invalid_for_shape')
            continue
        if st == 'skip1d':
            res.count('views_with_non_1d_result_skipped_for_1d_only_states')
            continue
        res.case(sig=None if trivial(venc) else (shape, coords, tgt, base_index + k * stride),
                 sample=dict(case0, view=venc) if (k % 97 == 5) else None)
        if st == 'ok':
            if full_codes is not None:
                v = dec_view(venc)
                try:
                    g = getter(v)
                    gc = np.asarray(g.codes) if hasattr(g, 'codes') else None
                    ec = full_codes if v is None else full_codes[v]
                except Exception as e:
                    gc, ec = repr(e), None
                if gc is not None and np.ndim(ec) > 0 and (ec is None or symptom(gc, ec) is not None):
                    res.violation('values-view', 'values|%s|%s|codes' % (dep, classify(venc, shape)),
                                  dict(case0, view=venc), jl(gc), None if ec is None else jl(ec),
                                  'category codes of the viewed values differ from the view of the full codes')
            continue
        if explained_by_input(w, inputs, venc):
            res.count('failures_explained_by_an_input_target')
            continue
        vc = classify(venc, shape)
        sym = st if st.startswith('raises') else 'wrong'
        res.violation('%s-view' % obs, '%s|%s|%s|%s' % (obs, dep, vc, sym), dict(case0, view=venc), got, exp,
                      'target %s, %d-d data, view class %s, symptom %s' % (tgt[1], len(shape), vc, st))
    # the MEMBERS of a composite selection, asked on their own after the composite was evaluated with views,
    # must still give view == full[view] (a composite that writes into a member's cached mask breaks exactly this)
    st = getattr(getter, 'state', None)
    if st is not None and tgt[0] != 'attr' and not isinstance(tgt[1], str):
        def members(x):
            return list(getattr(x, 'states', None) or [m for m in (getattr(x, 'state1', None),
                                                                  getattr(x, 'state2', None)) if m is not None])
        ref_members = members(getattr(getter_ref, 'state', None))
        for mi, (m, mr) in enumerate(zip(members(st), ref_members)):
            try:
                mfull = np.asarray(wref.d.get_mask(mr))
            except Exception:
                continue
            for k in order[:12]:
                venc = vencs[k]
                v = dec_view(venc)
                try:
                    exp = mfull if v is None else mfull[v]
                    got = np.asarray(getter.data.get_mask(m) if v is None else getter.data.get_mask(m, view=v))
                except Exception:
                    continue
                res.case()
                if np.ndim(exp) > 0 and symptom(got, exp) is not None:
                    res.violation('mask-view', 'mask|%s|member-after-composite|wrong' % dep,
                                  dict(case0, view=venc, member=mi), jl(got), jl(exp),
                                  'member %d of the composite, evaluated on its own after the composite' % mi)
                    break
    # the unviewed result must not have been altered by the viewed requests (memo aliasing)
    try:
        again = np.asarray(getter(None))
        if symptom(again, full0) is not None:
            res.violation('full-altered', '%s|%s|full-altered-after-views' % (obs, dep),
                          dict(case0, view='none', after_all_views=True), jl(again), jl(full0))
    except Exception as e:
        res.violation('full-altered', '%s|%s|full-raises-after-views' % (obs, dep),
                      dict(case0, view='none', after_all_views=True), repr(e), jl(full0))


ONLY_1D = ('CategoricalROI2D', 'CategoricalMultiRange')   # their to_mask loops are written for 1-d results
DATA_SHAPES = {'quick': [(5,), (3, 4), (2, 3, 4)],
               'thorough': [(5,), (3, 4), (2, 3, 4), (4,), (6,), (2, 2), (4, 3), (3, 2, 2), (2, 4, 3)]}
WORLD_DEPS = ('world',)


def data_targets(shape, tier):
    """[(coords, target, view tier)] for one shape."""
    w = build(shape, 'coupled', 0)
    out = []
    for name in sorted(w.attrs):
        out.append(('coupled', ('attr', name), tier))
        if len(shape) >= 2 and (name.startswith('world') or name in ('derw', 'fnpw')):
            out.append(('indep', ('attr', name), tier))
    leaves = sorted(w.sels)
    for name in leaves:
        out.append(('coupled', ('sel', name), tier))
        if len(shape) >= 2 and any(a.startswith('world') for a in w.sels[name][2]):
            out.append(('indep', ('sel', name), tier))
    comps = [(c, tier) for c in QUICK_COMPOSITES]
    if tier == 'thorough' and tuple(shape) in DATA_SHAPES['quick']:
        # every unordered pair of leaves (operator rotating), every inversion, a 3-member MultiOr per leaf; these
        # only delegate the view to their members, so they are run over the quick view alphabet
        ops = ['and', 'or', 'xor']
        for a in range(len(leaves)):
            comps.append((('invert', leaves[a]), 'quick'))
            comps.append((('multior', leaves[a], leaves[(a + 1) % len(leaves)], leaves[(a + 5) % len(leaves)]),
                          'quick'))
            for b in range(a + 1, len(leaves)):
                comps.append(((ops[(a + b) % 3], leaves[a], leaves[b]), 'quick'))
    seen = set()
    for c, vt in comps:
        if c in seen or any(k not in w.sels for k in c[1:]):
            continue
        # a selection that reaches d only through a key join is translated as a WHOLE (Data.get_mask falls back to
        # the join for the complete state): combined with a selection on d's own attributes it is evaluable on
        # neither table, so such mixtures are outside the domain (C11 covers composites across joins)
        nj = sum(1 for k in c[1:] if w.sels[k][1] == 'KeyJoin')
        if 0 < nj < len(c) - 1:
            continue
        seen.add(c)
        out.append(('coupled', ('sel', list(c)), vt))
    return out


def data_cases(tier):
    cases = []
    for shape in DATA_SHAPES[tier]:
        for coords, tgt, vt in data_targets(shape, tier):
            nchunks = max(1, len(view_alphabet(shape, vt)) // 400)
            for ch in range(nchunks):
                cases.append(['data', list(shape), coords, list(tgt), ch, nchunks, vt])
    return cases


def run_data_case(res, c, tier):
    _, shape, coords, tgt, ch, nchunks, vt = c
    shape = tuple(shape)
    vencs = view_alphabet(shape, vt)[ch::nchunks]
    eval_target(res, shape, coords, (tgt[0], tgt[1]), vencs, base_index=ch, stride=nchunks)


# =====================================================================================================
# part X: IndexedData
# =====================================================================================================
STATS = ['minimum', 'maximum', 'mean', 'median', 'sum', 'percentile']
IDX_SHAPES = {'quick': [(3, 4), (2, 3, 4)], 'thorough': [(3, 4), (2, 3, 4), (2, 2), (4, 3), (3, 2, 3)]}
IDX_SELS = ['ineq_x', 'range_world', 'roi_pix', 'slice_step', 'mask_same', 'category', 'element',
            ('and', 'ineq_x', 'slice_full'), ('invert', 'roi_pix')]


def index_tuples(shape):
    out = []
    for t in itertools.product(*[[None] + list(range(s)) for s in shape]):
        if any(v is None for v in t):
            out.append(list(t))
    return out


def same_pattern(shape, idx):
    opts = [[None] if v is None else list(range(s)) for v, s in zip(idx, shape)]
    return [list(t) for t in itertools.product(*opts) if list(t) != list(idx)]


def reduced_views(rshape, tier, full):
    """Views of the reduced dataset: None + full-length tuples (the documented IndexedData form)."""
    r = len(rshape)
    pal = PAL_Q if (tier == 'quick' or not full) else PAL_T
    ents = pal + INTS
    out = ['none']
    if full:
        for t in itertools.product(ents, repeat=r):
            out.append(['t'] + list(t))
        out.append(['t'] + [['a', [0, s - 1, 0]] for s in rshape])
        out.append(['t'] + [['a', [[0, s - 1], [s - 1, 0]]] for s in rshape])
    else:
        out.append(['t'] + [S(1)] * r)
        out.append(['t'] + [S(None, None, 2)] + [0] * (r - 1))
        out.append(['t'] + [-1] * (r - 1) + [S(None, -1)])
    return out


def stat_oracle(stat, vals, keep, axis):
    """Definition: the statistic of the finite selected values (per lane when axis is given)."""
    def f(v):
        if v.size == 0:
            return np.nan
        if stat == 'minimum':
            return v.min()
        if stat == 'maximum':
            return v.max()
        if stat == 'mean':
            return v.mean()
        if stat == 'median':
            return np.median(v)
        if stat == 'sum':
            return v.sum()
        return np.percentile(v, 30)
    vals = np.asarray(vals, dtype=float)
    keep = keep & np.isfinite(vals)
    if axis is None:
        return np.asarray(f(vals[keep])), np.asarray(False)
    axes = (axis,) if isinstance(axis, int) else tuple(axis)
    rest = [a for a in range(vals.ndim) if a not in axes]
    out = np.zeros([vals.shape[a] for a in rest])
    empty = np.zeros(out.shape, dtype=bool)
    for pos in itertools.product(*[range(vals.shape[a]) for a in rest]):
        sel = [slice(None)] * vals.ndim
        for a, p in zip(rest, pos):
            sel[a] = p
        lane, k = vals[tuple(sel)], keep[tuple(sel)]
        out[pos] = f(lane[k])
        empty[pos] = not k.any()
    return out, empty


def stat_equal(stat, got, exp, empty):
    g = np.asarray(got, dtype=float)
    if g.shape != exp.shape:
        return False
    ok = np.isclose(g, exp, rtol=1e-12, atol=0, equal_nan=True)
    if stat == 'sum':   # the sum of no values: both conventions (NaN, 0) are accepted
        ok = ok | (empty & ((g == 0) | np.isnan(g)))
    return bool(np.all(ok))


def axes_for(r):
    out = [None] + list(range(r))
    if r >= 2:
        out.append(tuple(range(r)))
        out.append((0, 1))
    if r >= 3:
        out += [(1, 2), (0, 2)]
    seen, res = set(), []
    for a in out:
        if a not in seen:
            seen.add(a)
            res.append(a)
    return res


def check_indexed(res, w, ix, idx, tier, full, case0, phase):
    """Compare everything observable on `ix` (whose indices are `idx`) with the parent's slice."""
    d = w.d
    sl = tuple(slice(None) if v is None else v for v in idx)
    keep_axes = [k for k, v in enumerate(idx) if v is None]
    rshape = tuple(d.shape[k] for k in keep_axes)
    r = len(rshape)
    pre = 'indexed' if phase == 'init' else 'indexed-reindexed'

    def viol(clause, key, extra, got, exp, detail=None):
        res.violation(clause, '%s|%s' % (pre, key), dict(case0, **extra), got, exp, detail)

    if tuple(ix.shape) != rshape:
        viol('shape', 'shape', {}, list(ix.shape), list(rshape))
        return
    own = dict((c.label, c) for c in ix.main_components)
    comps = []
    for name in ('x', 'i', 'c', 'der', 'fn', 'lnk'):
        comps.append((name, 'parent-cid', w.attrs[name][1], w.attrs[name][2], w.attrs[name][1]))
    for name in ('x', 'i', 'c'):
        comps.append((name, 'own-cid', own[name], w.attrs[name][2], w.attrs[name][1]))
    for j, k in enumerate(keep_axes):
        comps.append(('pix%d' % k, 'own-cid', ix.pixel_component_ids[j], 'pixel', d.pixel_component_ids[k]))
        comps.append(('world%d' % k, 'own-cid', ix.world_component_ids[j], 'world', d.world_component_ids[k]))
    vencs = reduced_views(rshape, tier, full)
    sigbase = (pre, case0['shape'], case0['coords'], idx, case0.get('then'))

    def parent_view(venc):
        """The same request expressed on the parent (None when that form is outside part D's view domain)."""
        if venc == 'none':
            return ['t'] + [S() if v is None else v for v in idx]
        items = list(venc[1:])
        if any(isinstance(it, list) and it[0] == 'a' for it in items):
            return None if r < len(idx) else venc
        return ['t'] + [items.pop(0) if v is None else v for v in idx]

    def explained(getter_parent, full_parent, venc):
        pv = parent_view(venc)
        if pv is None:
            return False
        return one_view(getter_parent, full_parent, pv)[0] not in ('ok', 'skip')

    # ---- values
    for name, flavour, cid, dep, pcid in comps:
        Pfull = np.asarray(d[pcid])
        P = Pfull[sl]
        for venc in vencs:
            st, got, exp = one_view(lambda v: ix.get_data(cid, view=v), P, venc)
            if st == 'skip':
                continue
            res.case(sig=sigbase + ('v', name, flavour, core.short_hash(venc)))
            if st != 'ok':
                if explained(lambda v: d.get_data(pcid, view=v), Pfull, venc):
                    res.count('indexed_failures_explained_by_the_parent_view')
                    continue
                viol('indexed-values', 'values|%s|%s|%s' % (dep, classify(venc, rshape),
                                                            st if st.startswith('raises') else 'wrong'),
                     dict(what='values', comp=name, cid=flavour, view=venc), got, exp)
    # ---- masks

    def ix_fails(kind, name, venc):
        """Does an attribute (read by a selection) or a leaf (of a composite) fail alone on ix for this view?"""
        if kind == 'attr':
            pc = w.attrs[name][1]
            return one_view(lambda v: ix.get_data(pc, view=v), np.asarray(d[pc])[sl], venc)[0] not in ('ok', 'skip')
        st_, pst_ = ix_state(w, name), make_state(w, name)
        try:
            ref = np.asarray(d.get_mask(pst_))[sl]
        except Exception:
            return True
        return one_view(lambda v: ix.get_mask(st_, view=v), ref, venc)[0] not in ('ok', 'skip')

    for spec in IDX_SELS:
        state = ix_state(w, spec)
        pstate = make_state(w, spec)
        label = spec if isinstance(spec, str) else '%s(%s)' % (spec[0], ','.join(spec[1:]))
        dep = w.sels[spec][1] if isinstance(spec, str) else 'composite'
        try:
            Mfull = np.asarray(d.get_mask(pstate))
            assert Mfull.shape == tuple(d.shape), 'shape %s' % (Mfull.shape,)
        except Exception as e:     # the parent's own full mask is broken: part D reports it for plain Data as well
            viol('indexed-mask', 'mask|%s|parent-full-mask|raises:%s' % (dep, type(e).__name__),
                 dict(what='mask', sel=spec, view='none'), repr(e)[:300], 'a mask of the parent shape')
            continue
        M = Mfull[sl]
        inputs = [('attr', a) for a in w.sels[spec][2]] if isinstance(spec, str) else [('sel', k) for k in spec[1:]]
        for venc in vencs:
            st, got, exp = one_view(lambda v: ix.get_mask(state, view=v), M, venc)
            if st == 'skip':
                continue
            res.case(sig=sigbase + ('m', label, core.short_hash(venc)))
            if st != 'ok':
                if explained(lambda v: d.get_mask(pstate, view=v), Mfull, venc):
                    res.count('indexed_failures_explained_by_the_parent_view')
                    continue
                if any(ix_fails(k, nm, venc) for k, nm in inputs):
                    res.count('indexed_mask_failures_explained_by_an_input')
                    continue
                viol('indexed-mask', 'mask|%s|%s|%s' % (dep, classify(venc, rshape),
                                                        st if st.startswith('raises') else 'wrong'),
                     dict(what='mask', sel=spec, view=venc), got, exp)
    # ---- statistics

    def stat_check(name, flavour, cid, pcid, P, keep, sub, axis, stat, venc):
        kw = dict(axis=axis)
        if stat == 'percentile':
            kw['percentile'] = 30
        if sub is not None:
            kw['subset_state'] = ix_state(w, sub)
        pkw = dict(kw, view=dec_view(parent_view(venc)))
        if sub is not None:
            pkw['subset_state'] = make_state(w, sub)
        if venc != 'none':
            kw['view'] = dec_view(venc)
        exp, empty = stat_oracle(stat, P, keep, axis)
        extra = dict(what='stat', stat=stat, comp=name, cid=flavour, axis=axis, subset=sub, view=venc)
        axk = 'axis=none' if axis is None else ('axis=int' if isinstance(axis, int) else
                                                ('axis=all' if len(axis) == r else 'axis=tuple'))
        sk = ('nosubset' if sub is None else 'subset') + ('' if venc == 'none' else '+view')
        try:
            got = ix.compute_statistic(stat, cid, **kw)
            sym = None if stat_equal(stat, got, exp, empty) else 'wrong'
            got = jl(got)
        except Exception as e:
            sym, got = 'raises:%s' % type(e).__name__, repr(e)[:300]
        if sym is None:
            return
        # is it the parent's own compute_statistic (C10's subject) that misbehaves for the translated request?
        try:
            psym = None if stat_equal(stat, d.compute_statistic(stat, pcid, **pkw), exp, empty) else 'wrong'
        except Exception as e:
            psym = 'raises:%s' % type(e).__name__
        # (an earlier version only COUNTED deviations that the parent's compute_statistic shows as well for the
        # translated request; the statement compares with the slice of the parent by definition, so they are
        # violations - the detail says whether the parent deviates in the same way)
        viol('indexed-statistic', 'stat|%s|%s|%s' % (sk, axk, sym), extra, got, jl(exp),
             'parent.compute_statistic with the translated view: %s' % (psym or 'correct'))

    sub_specs = [None, 'ineq_i', 'slice_step']
    for name, flavour, cid, dep, pcid in comps:
        if name in ('c', 'fn', 'lnk') or (name.startswith('pix') and name != 'pix%d' % keep_axes[0]) or \
                (name.startswith('world') and name != 'world%d' % keep_axes[-1]):
            continue
        P = np.asarray(d[pcid], dtype=float)[sl]
        for sub in sub_specs:
            if sub is not None and not (flavour == 'parent-cid' and name in ('x', 'der')):
                continue
            keep = np.ones(P.shape, dtype=bool) if sub is None else np.asarray(d.get_mask(make_state(w, sub)))[sl]
            for axis in axes_for(r):
                for stat in STATS:
                    res.case(sig=sigbase + ('s', name, flavour, sub, axis, stat))
                    stat_check(name, flavour, cid, pcid, P, keep, sub, axis, stat, 'none')
    # a reduced view through compute_statistic (no subset)
    venc = ['t'] + [S(1)] * r
    xc = w.attrs['x'][1]
    P = np.asarray(d[xc], dtype=float)[sl][dec_view(venc)]
    for axis in axes_for(r):
        for stat in ('mean', 'maximum'):
            res.case(sig=sigbase + ('sv', axis, stat))
            stat_check('x', 'parent-cid', xc, xc, P, np.ones(P.shape, dtype=bool), None, axis, stat, venc)
    # ---- histograms
    xr = (w.off - 0.37, w.off + w.scale * w.n + 0.41)
    ir = (-0.37, 4.41)
    X = np.asarray(d[w.attrs['x'][1]], dtype=float)[sl].ravel()
    Iv = np.asarray(d[w.attrs['i'][1]], dtype=float)[sl].ravel()
    for flavour in ('parent-cid', 'own-cid'):
        cx = w.attrs['x'][1] if flavour == 'parent-cid' else own['x']
        ci = w.attrs['i'][1] if flavour == 'parent-cid' else own['i']
        for sub in (None, 'ineq_i', 'roi_pix'):
            keep = np.ones(X.shape, dtype=bool) if sub is None else \
                np.asarray(d.get_mask(make_state(w, sub)))[sl].ravel()
            for hk in ('1d', '1d-weights', '2d'):
                kx = keep & np.isfinite(X) & (X >= xr[0]) & (X <= xr[1])
                kw = dict(range=[xr], bins=[4])
                if sub is not None:
                    kw['subset_state'] = ix_state(w, sub)
                if hk == '1d':
                    cids = [cx]
                    exp = np.histogram(X[kx], bins=4, range=xr)[0].astype(float)
                elif hk == '1d-weights':
                    cids = [cx]
                    kw['weights'] = ci
                    exp = np.histogram(X[kx], bins=4, range=xr, weights=Iv[kx])[0].astype(float)
                else:
                    cids = [cx, ci]
                    kw.update(range=[xr, ir], bins=[4, 3])
                    exp = np.histogram2d(X[kx], Iv[kx], bins=[4, 3], range=[xr, ir])[0].astype(float)
                extra = dict(what='hist', hist=hk, cid=flavour, subset=sub)
                res.case(sig=sigbase + ('h', flavour, sub, hk))
                try:
                    got = np.asarray(ix.compute_histogram(cids, **kw), dtype=float)
                except Exception as e:
                    viol('indexed-histogram', 'hist|%s|raises:%s' % (flavour, type(e).__name__), extra,
                         repr(e)[:300], jl(exp))
                    continue
                if got.shape != exp.shape or not np.array_equal(got, exp):
                    viol('indexed-histogram', 'hist|%s|wrong' % flavour, extra, jl(got), jl(exp))


def run_indexed_case(res, c, tier):
    try:
        _run_indexed_case(res, c, tier)
    except Exception as e:
        # reference computations on the parent (full masks / values without a view) are not expected to fail; on
        # the unchanged tree they never do, so this only fires when the code under test changed
        import traceback
        tb = traceback.extract_tb(e.__traceback__)[-1]
        res.violation('indexed-unexpected-exception', 'indexed|unexpected-exception|%s' % type(e).__name__,
                      dict(part='indexed', shape=list(c[1]), coords=c[2], indices=c[3], then=c[4]),
                      '%r at %s:%s' % (e, tb.filename, tb.lineno), 'no exception')


def _run_indexed_case(res, c, tier):
    _, shape, coords, idx, then = c
    shape = tuple(shape)
    from glue.core.data_derived import IndexedData
    core.reset_globals()
    w = build(shape, coords)
    case0 = dict(part='indexed', shape=list(shape), coords=coords, indices=idx, then=then)
    try:
        ix = IndexedData(w.d, tuple(idx))
    except Exception as e:
        res.violation('indexed-init', 'indexed|init|raises:%s' % type(e).__name__, case0, repr(e), 'IndexedData')
        return
    if then is None:
        check_indexed(res, w, ix, idx, tier, True, case0, 'init')
        return
    # observe at the first indices (fills whatever caches exist), then move
    check_indexed(Collector(), w, ix, idx, tier, False, case0, 'init')
    try:
        ix.indices = tuple(then)
    except Exception as e:
        res.violation('indexed-set', 'indexed-reindexed|set|raises:%s' % type(e).__name__, case0, repr(e),
                      'indices assigned')
        return
    after, fresh = Collector(), Collector()
    check_indexed(after, w, ix, then, tier, False, case0, 'set')
    res.evaluations += after.evaluations
    res.sigs |= after.sigs
    for k, n_ in after.counts.items():
        res.count(k, n_)
    if after.violations:
        # whatever a freshly constructed IndexedData(parent, then) shows as well is reported by that tuple's own
        # case under the 'indexed|' keys; only what the setter adds is reported here
        check_indexed(fresh, w, IndexedData(w.d, tuple(then)), then, tier, False, case0, 'set')
        known = set(core.jdump([v['key'], v['case']], sort_keys=True) for v in fresh.violations)
        for v in after.violations:
            if core.jdump([v['key'], v['case']], sort_keys=True) in known:
                res.count('reindexed_failures_also_shown_by_a_fresh_IndexedData')
            else:
                res.violation(v['clause'], v['key'], v['case'], v['observed'], v['expected'], v['detail'])


class Collector(core.Result):
    """A Result that keeps every violation (for differencing)."""

    def violation(self, clause, key, case, observed=None, expected=None, detail=None):
        self.viol_count += 1
        self.violations.append(dict(clause=clause, key=key, case=case, observed=observed, expected=expected,
                                    detail=detail))


def indexed_cases(tier):
    cases = []
    for shape in IDX_SHAPES[tier]:
        for coords in ('coupled', 'indep'):
            for idx in index_tuples(shape):
                cases.append(['indexed', list(shape), coords, idx, None])
                if coords == 'coupled':
                    for other in same_pattern(shape, idx):
                        cases.append(['indexed', list(shape), coords, idx, other])
    return cases


# =====================================================================================================
# main
# =====================================================================================================

def do_case(res, c, tier):
    if c[0] == 'data':
        run_data_case(res, c, tier)
    else:
        run_indexed_case(res, c, tier)


def work(shard):
    tier, cases = shard
    core.bind()
    res = core.Result()
    for c in cases:
        do_case(res, c, tier)
    return res


RULE = ('complete Cartesian products.  Part D: shapes x (every attribute kind: stored float/int, categorical, '
        'derived-binary, derived-function (1/2 inputs, nested, on broadcast pixel/world inputs), linked (identity, '
        'function, pixel, reverse), every pixel and world axis under coupled and independent affine coordinates; '
        'every elementary selection kind of the leaf table + composites) x the whole view alphabet (None, Ellipsis, '
        'all tuples of length 1..ndim over the slice palette + integers {0,1,-1}, index-array tuples, boolean masks, '
        'bare slice/int/array forms).  Part X: every index tuple with >=1 None x components (parent and own cids) x '
        'reduced full-length views, masks, 6 statistics x axes x subset, histograms (1-d, weighted, 2-d); then every '
        'ordered pair of same-pattern index tuples through the indices setter.  non-trivial = the view is not '
        'None/Ellipsis/all-":" (part D) / every part-X evaluation (the indices always reduce or re-read the parent)')

ASSUMPTIONS = [
    'views are restricted to the forms the statement lists; excluded: tuples containing Ellipsis, negative-step '
    'slices, lists, tuples mixing index arrays with slices/ints, index-array tuples shorter than ndim, a boolean '
    'mask wrapped in a 1-tuple, bare integer arrays on n-d data (bare integer arrays are used on 1-d data only)',
    'IndexedData views are None or full-length tuples (the only form _to_original_view documents)',
    'IndexedData masks use selections expressed in the parent\'s component ids (as the repository tests do)',
    'CategoricalROISubsetState2D / CategoricalMultiRangeSubsetState are evaluated on 1-d data and on views with a '
    '1-d result only (their loops are 1-d)',
    'coordinates are AffineCoordinates with block-symmetric coupling only (C15 covers other couplings); all numbers '
    'are dyadic so float arithmetic is exact',
    'the sum of an empty lane may be NaN or 0 (both conventions occur in compute_statistic; C10 owns that question)',
    'shapes bounded as listed in product_dimensions',
]


def all_cases(tier):
    return data_cases(tier) + indexed_cases(tier)


def run(tier):
    t0 = time.time()
    core.bind()
    dcs, xcs = data_cases(tier), indexed_cases(tier)
    cases = core.rotate(dcs + xcs)
    total = core.run_shards(work, [(tier, s) for s in core.split(cases, core.jobs() * 8)])
    dims = dict(data_shapes=[list(s) for s in DATA_SHAPES[tier]],
                views_per_shape=dict((str(s), len(view_alphabet(s, tier))) for s in DATA_SHAPES[tier]),
                targets_per_shape=dict((str(s), len(data_targets(s, tier))) for s in DATA_SHAPES[tier]),
                indexed_parent_shapes=[list(s) for s in IDX_SHAPES[tier]],
                indexed_init_cases=sum(1 for c in xcs if c[4] is None),
                indexed_reindex_pairs=sum(1 for c in xcs if c[4] is not None),
                statistics=STATS, data_cases=len(dcs))
    return core.finish(PROP, tier, total, 'exploration', RULE, t0, coverage=dict(product_dimensions=dims),
                       confirm=confirm, assumptions=ASSUMPTIONS)


def _rerun(case):
    res = core.Result()
    res.MAX_VIOL = 100000
    if case['part'] == 'data':
        tgt = case['target']
        eval_target(res, tuple(case['shape']), case['coords'], (tgt[0], tgt[1]), [case['view']])
    else:
        run_indexed_case(res, ['indexed', case['shape'], case['coords'], case['indices'], case.get('then')],
                         'thorough')
    return res


def confirm(v, show=False):
    res = _rerun(v['case'])
    # Result.violation keeps only 3 per key; every key is still represented
    hit = [x for x in res.violations if x['key'] == v['key']]
    if show:
        for x in hit[:1]:
            print('  case     ', core._clip(x['case']))
            print('  observed ', core._clip(x['observed']))
            print('  expected ', core._clip(x['expected']))
    return bool(hit)


def replay(doc):
    return confirm(doc, show=True)
