"""C13 - undo restores the previous session state and redo restores the undone one.

Mode H: explicit-state BFS over do/undo/redo histories on a real Session/CommandStack; the model is a
stack of (snapshot-before, snapshot-after) pairs taken from the real objects when a command is first done."""
import time

from mc import core, hist
from mc.worlds import CollectionWorld, MODES, mode_by_name

PROP = 'C13'


class World(CollectionWorld):
    def __init__(self, **kw):
        CollectionWorld.__init__(self, **kw)
        self.m_undo = []     # [op, before, after]
        self.m_redo = []
        self.expect = None   # (clause, expected snapshot)
        self.max_undo = kw.get('max_undo') or 50


class Scenario(object):

    def __init__(self, start='empty', modes=MODES, n_states=2, roi=True, max_undo=None, names=('d0', 'd1'),
                 session_mode=None):
        self.session_mode = session_mode      # the session's own edit mode (used when no override is given)
        self.start = start
        self.modes = modes
        self.n_states = n_states
        self.roi = roi
        self.max_undo = max_undo
        self.names = names

    def new_world(self):
        kw = dict(max_undo=self.max_undo)
        if self.start == 'group-edited':
            kw.update(groups0=1, edit0=True)
        elif self.start == 'group-not-edited':
            kw.update(groups0=1, edit0=False)
        w = World(**kw)
        if self.session_mode:
            w.mode.mode = mode_by_name(self.session_mode)
        return w

    def opname(self, op):
        return ':'.join(str(x) for x in op)

    def enabled(self, w):
        ops = []
        for n in self.names:
            ops.append(['remove' if w.in_dc(n) else 'add', n])
        for k in range(self.n_states):
            ops.append(['apply', k, 'default'])
            for m in self.modes:
                ops.append(['apply', k, m])
        if self.roi:
            ops.append(['roi'])
        if w.m_undo:
            ops.append(['undo'])
        if w.m_redo:
            ops.append(['redo'])
        return ops

    def _command(self, w, op):
        from glue.core import command as C
        from glue.core.roi import RectangularROI
        k = op[0]
        if k == 'add':
            return C.AddData(data=w.pool[op[1]])
        if k == 'remove':
            return C.RemoveData(data=w.pool[op[1]])
        if k == 'apply':
            kw = {}
            if op[2] != 'default':
                kw['override_mode'] = mode_by_name(op[2])
            return C.ApplySubsetState(data_collection=w.dc, subset_state=w.make_state(op[1]), **kw)
        if k == 'roi':
            roi = RectangularROI(0.5, 2.5, 0.5, 3.5)
            return C.ApplyROI(data_collection=w.dc, roi=roi,
                              apply_func=lambda r: w.mode.update(w.dc, w.make_roi_state(r)))
        raise core.EngineError('unknown op %r' % (op,))

    def apply(self, w, op):
        k = op[0]
        w.expect = None
        try:
            if k == 'undo':
                rec = w.m_undo.pop()
                w.m_redo.append(rec)
                w.stack.undo()
                w.expect = ('undo-restores-before', rec[1])
            elif k == 'redo':
                rec = w.m_redo.pop()
                w.m_undo.append(rec)
                w.stack.redo()
                w.expect = ('redo-restores-after', rec[2])
            else:
                before = w.snapshot()
                w.stack.do(self._command(w, op))
                after = w.snapshot()
                w.m_undo.append([list(op), before, after])
                w.m_undo = w.m_undo[-w.max_undo:]
                w.m_redo = []
        except core.EngineError:
            raise
        except Exception as e:
            w.violations.append(('unexpected-exception', '%s: %s' % (type(e).__name__, e),
                                 '%s succeeds' % self.opname(op)))

    def check(self, w):
        out = []
        if w.expect is not None:
            clause, want = w.expect
            got = w.snapshot()
            if core.jdump(got, sort_keys=True) != core.jdump(want, sort_keys=True):
                diff = {k: [got[k], want[k]] for k in want if core.jdump(got[k], sort_keys=True) !=
                        core.jdump(want[k], sort_keys=True)}
                out.append((clause, {k: v[0] for k, v in diff.items()}, {k: v[1] for k, v in diff.items()}))
        can_undo, can_redo = w.stack.can_undo_redo()
        if can_redo != bool(w.m_redo):
            out.append(('redo-history', can_redo, bool(w.m_redo),
                        'a new command clears the redo history; undo fills it'))
        n = len(w.stack._command_stack)
        if n > w.cmdmod.MAX_UNDO:
            out.append(('undo-history-bound', n, '<= %d' % w.cmdmod.MAX_UNDO))
        if n != len(w.m_undo) or len(w.stack._undo_stack) != len(w.m_redo):
            out.append(('stack-depth', [n, len(w.stack._undo_stack)], [len(w.m_undo), len(w.m_redo)]))
        # the C06 membership invariants must also survive any undo/redo interleaving
        out.extend(w.membership_violations())
        return out

    def canon(self, w):
        c = w.canon()
        c['undo'] = [[r[0], core.short_hash(r[1]), core.short_hash(r[2])] for r in w.m_undo]
        c['redo'] = [[r[0], core.short_hash(r[1]), core.short_hash(r[2])] for r in w.m_redo]
        return c


def tiers(tier):
    few = ['AndMode', 'XorMode', 'NewMode']
    if tier == 'quick':
        return [('empty', Scenario('empty', modes=few, n_states=1), 5),
                ('group-edited', Scenario('group-edited', modes=MODES, n_states=1, roi=False, names=('d1',)), 4),
                ('session-new-mode', Scenario('group-edited', modes=['AndMode'], n_states=1, names=('d1',),
                                              session_mode='NewMode'), 4),
                # tiny alphabet, deep: several levels of undo followed by redo and undo again
                ('deep-undo-redo', Scenario('empty', modes=[], n_states=2, roi=False, names=()), 8),
                ('max-undo-2', Scenario('group-not-edited', modes=['OrMode'], n_states=1, roi=False,
                                        max_undo=2, names=('d1',)), 6)]
    return [('empty', Scenario('empty', modes=MODES, n_states=1), 5),
            ('empty-two-states', Scenario('empty', modes=few, n_states=2), 5),
            ('group-edited', Scenario('group-edited', modes=MODES, n_states=1), 5),
            ('group-not-edited', Scenario('group-not-edited', modes=few, n_states=1), 6),
            ('deep-undo-redo', Scenario('empty', modes=['NewMode'], n_states=1, roi=True, names=()), 8),
            ('session-new-mode', Scenario('group-edited', modes=few, n_states=1, session_mode='NewMode'), 5),
            ('session-xor-mode', Scenario('empty', modes=['NewMode'], n_states=2, session_mode='XorMode'), 5),
            ('max-undo-2', Scenario('group-not-edited', modes=['OrMode', 'NewMode'], n_states=1, roi=False,
                                    max_undo=2, names=('d1',)), 8)]


def long_run(total):
    """One linear run of 60 commands against the real MAX_UNDO (50)."""
    scn = Scenario('empty', n_states=2)
    core.reset_globals()
    w = scn.new_world()
    seq = []
    for i in range(60):
        seq.append(['apply', i % 2, MODES[i % 6]] if i % 3 else ['remove' if w.in_dc('d1') else 'add', 'd1'])
        scn.apply(w, seq[-1])
        for v in list(w.violations) + scn.check(w):
            total.violation(v[0], '%s|long-run-60' % v[0], dict(kind='long', n=i + 1), v[1], v[2])
    for i in range(51):
        if not w.stack.can_undo_redo()[0]:
            break
        scn.apply(w, ['undo'])
        for v in list(w.violations) + scn.check(w):
            total.violation(v[0], '%s|long-run-60-undo' % v[0], dict(kind='long', n=i + 1), v[1], v[2])
    total.case(sig='long-run', n=111)
    if i != 50:
        total.violation('undo-history-bound', 'undo-history-bound|long-run-60', dict(kind='long'),
                        i, 50, 'exactly MAX_UNDO=50 commands can be undone after 60 commands')


def run(tier):
    t0 = time.time()
    total = core.Result()
    cov = dict(states=0, transitions=0, traces_validated_against_impl=0, runs=[])
    for label, scn, depth in tiers(tier):
        # the deep scenario runs WITHOUT de-duplication: command objects carry private records (what they
        # saw when first done) that the canonical form cannot see, so histories that re-converge on the same
        # visible state are still all extended
        ex = hist.Explorer(scn, depth, PROP, label=label, dedup=not label.startswith('deep'))
        total.merge(ex.run())
        c = ex.coverage()
        for k in ('states', 'transitions', 'traces_validated_against_impl'):
            cov[k] += c[k]
        c['scenario'] = label
        cov['runs'].append(c)
    long_run(total)
    return core.finish(
        PROP, tier, total, 'model_checking',
        'distinct = canonical real session states incl. both stacks; every transition executes the real '
        'CommandStack and command classes', t0, coverage=cov, confirm=confirm,
        assumptions=['snapshot compares datasets, number and selection structure of groups, every subset mask '
                     'and the edit-subset choice; group labels/colours are NOT compared (redo of a creating '
                     'command draws a fresh default label)',
                     'only commands mutate the session between do and undo',
                     'dataset membership is compared as a set (undo of RemoveData re-appends at the end)'])


def _scn_for(label):
    for tier in ('thorough', 'quick'):
        for l, scn, d in tiers(tier):
            if l == label:
                return scn
    return Scenario()


def confirm(v):
    if v['case'].get('kind') == 'long':
        r = core.Result()
        long_run(r)
        return any(x['key'] == v['key'] for x in r.violations)
    scn = _scn_for(v['case'].get('scenario'))
    viol = hist.replay(scn, v['case'], verbose=False)
    return any(x[0] == v['clause'] for x in viol)


def replay(doc):
    if doc['case'].get('kind') == 'long':
        return confirm(doc)
    scn = _scn_for(doc['case'].get('scenario'))
    viol = hist.replay(scn, doc['case'])
    for x in viol:
        print('  violated:', x)
    return any(x[0] == doc['clause'] for x in viol)
