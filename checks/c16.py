"""C16 - a fixed-resolution buffer equals nearest-pixel resampling through the links; a cache id never
changes a result (Mode I over link geometries x bounds, and over ALL request sequences under one cache id).

World: a reference dataset R and sources S (two attributes), S2 (other dataset) whose pixel axes are linked to
R's pixel axes by  s_pixel[ia] = a[ia] * r_pixel[perm[ia]] + b[ia]  (LinkTwoWay on pixel component ids, added
through a DataCollection).  S may have fewer dimensions than R (then the buffer is constant along the free axis).

Clauses
  value / mask     compute_fixed_resolution_buffer(bounds, target_data=R, target_cid=.. | subset_state=..) ==
                   nearest-pixel oracle (NaN / False outside S), for the full product of per-axis bounds
  cache            for every sequence of requests (fresh caches per sequence, never cleared inside one) the result
                   with cache_id == the result without, at every step (data and links unchanged inside a sequence)
  image / image-seq ImageLayerState.get_sliced_data / ImageSubsetLayerState.get_sliced_data for every
                   (x axis, y axis, slices, view|bounds form) and for every sequence of viewer-state changes
                   (the layer state's uuid is the cache id) == the plane computed by the oracle
The oracle is plain numpy on the model map (perm, a, b); selections are evaluated from their definition.
"""
import time
import itertools

import numpy as np

from mc import core

PROP = 'C16'

# --------------------------------------------------------------------------- configurations
# (a, b) per source axis; chosen so that a*x+b is never within 1e-6 of a rounding tie for any sample position
# used below (asserted at run time: ties are counted and must be 0).
AB_SETS = {
    'unit': [(1.0, 0.0), (1.0, 0.0), (1.0, 0.0)],
    'mixed': [(2.0, 0.0), (1.0, 1.0), (0.5, -1.3)],
    'shift': [(1.0, -1.3), (0.5, 0.3), (2.0, 1.0)],
    'flip': [(-1.0, 2.1), (1.0, -0.8), (-2.0, 4.3)],
}
PERMS3 = [(0, 1, 2), (2, 0, 1), (1, 0, 2), (0, 2, 1), (1, 2, 0), (2, 1, 0)]
PERMS2 = [(0, 1), (1, 0)]
LOWER = [(1, 2), (2, 1), (0, 2), (0, 1)]          # 2-d source inside the 3-d reference (one free axis)
RSHAPE = {2: (3, 4), 3: (2, 3, 4)}
VALUE_PALETTES = [(10.0, 1.0), (7.0, -3.5), (-4.0, 100.0)]    # source values = k*arange + c (all distinct)


FAR = 2 ** 24 + 3


def configs(tier):
    out = []
    if tier == 'quick':
        for perm in PERMS3[:3]:
            for ab in ('unit', 'mixed'):
                out.append(dict(rshape=[2, 3, 4], perm=list(perm), ab=ab))
        for perm in PERMS2:
            for ab in ('unit', 'mixed', 'flip'):
                out.append(dict(rshape=[3, 4], perm=list(perm), ab=ab))
        for perm in LOWER[:2]:
            for ab in ('unit', 'mixed'):
                out.append(dict(rshape=[2, 3, 4], perm=list(perm), ab=ab))
        # pixel-ALIGNED sources (identity links): selections defined on the reference (slice / pixel states) are
        # translated to the source by re-ordering their slices
        for perm in [PERMS3[1], PERMS3[2], LOWER[0], LOWER[3]]:
            out.append(dict(rshape=[2, 3, 4], perm=list(perm), ab='unit', same=True))
        out.append(dict(rshape=[3, 4], perm=[1, 0], ab='unit', same=True))
        # datasets linked through their WORLD coordinates (both carry affine coordinates; the pixel-to-pixel map is
        # the composition pixel -> world -> world -> pixel)
        out.append(dict(rshape=[2, 3, 4], perm=[2, 0, 1], ab='mixed', world=True))
        out.append(dict(rshape=[3, 4], perm=[1, 0], ab='mixed', world=True))
        out.append(dict(rshape=[2, 3, 4], perm=list(LOWER[0]), ab='shift', world=True))
    else:
        for perm in PERMS3[:3] + LOWER[:2]:
            for ab in ('mixed', 'shift', 'flip'):
                out.append(dict(rshape=[2, 3, 4], perm=list(perm), ab=ab, world=True))
        for perm in PERMS2:
            for ab in ('mixed', 'flip'):
                out.append(dict(rshape=[3, 4], perm=list(perm), ab=ab, world=True))
        for perm in PERMS3 + LOWER:
            out.append(dict(rshape=[2, 3, 4], perm=list(perm), ab='unit', same=True))
        for perm in PERMS2:
            out.append(dict(rshape=[3, 4], perm=list(perm), ab='unit', same=True))
        for perm in PERMS3:
            for ab in ('unit', 'mixed', 'shift', 'flip'):
                out.append(dict(rshape=[2, 3, 4], perm=list(perm), ab=ab))
        for perm in PERMS2:
            for ab in ('unit', 'mixed', 'shift', 'flip'):
                out.append(dict(rshape=[3, 4], perm=list(perm), ab=ab))
        for perm in LOWER:
            for ab in ('unit', 'mixed', 'shift', 'flip'):
                out.append(dict(rshape=[2, 3, 4], perm=list(perm), ab=ab))
    return out


def cfg_class(cfg):
    nd = len(cfg['rshape'])
    p = cfg['perm']
    if len(p) < nd:
        kind = 'lowerdim'
    elif list(p) == list(range(nd)):
        kind = 'aligned'
    else:
        kind = 'permuted'
    return 'nd=%d|%s%s%s%s' % (nd, kind, '|relinked' if cfg.get('relink') else '',
                               '|pixel-aligned' if cfg.get('same') else '', '|world-linked' if cfg.get('world') else '') + \
        ('|far-origin' if cfg.get('origin') else '')


class World(object):
    pass


def build_world(cfg):
    """Fresh real objects + the model map."""
    from glue.core import Data, DataCollection
    from glue.core.link_helpers import LinkTwoWay, LinkSame
    from glue.core.subset import RoiSubsetState, SliceSubsetState
    from glue.viewers.image.pixel_selection_subset_state import PixelSubsetState
    from glue.core.roi import RectangularROI
    w = World()
    rshape = tuple(cfg['rshape'])
    k, c = VALUE_PALETTES[core.seed() % len(VALUE_PALETTES)]
    from glue.core.coordinates import AffineCoordinates
    rcoords = AffineCoordinates(np.eye(len(rshape) + 1)) if cfg.get('world') else None      # world = pixel
    w.R = Data(r=np.arange(int(np.prod(rshape)), dtype=float).reshape(rshape), label='R', coords=rcoords)
    w.sources = {}
    w.maps = {}
    w.arrays = {}

    def add_source(name, perm, ab, attrs):
        shp = tuple(rshape[ra] for ra in perm)
        n = int(np.prod(shp))
        comps = {}
        for j, a in enumerate(attrs):
            comps[a] = ((k + j) * np.arange(n, dtype=float) + c - 17 * j).reshape(shp)
        scoords = None
        if cfg.get('world') and name == 'S':
            # source pixel = a * world + b   <=>   world = pixel / a - b / a   (matrix rows in x, y, ... order)
            ns = len(shp)
            m = np.eye(ns + 1)
            for ia in range(ns):
                m[ns - 1 - ia, ns - 1 - ia] = 1.0 / ab[ia][0]
                m[ns - 1 - ia, -1] = -ab[ia][1] / ab[ia][0]
            scoords = AffineCoordinates(m)
        S = Data(label=name, coords=scoords, **comps)
        w.sources[name] = S
        w.maps[name] = [(ra, ab[ia][0], ab[ia][1]) for ia, ra in enumerate(perm)]
        for a in attrs:
            w.arrays[(name, a)] = comps[a]
        return S

    ab = AB_SETS[cfg['ab']]
    if cfg.get('origin'):
        ab = [(a, b - a * cfg['origin']) for a, b in ab]
    S = add_source('S', cfg['perm'], ab, ['s', 't'])
    # the "other dataset": reversed axis assignment and a different map
    perm2 = list(cfg['perm'])[::-1]
    ab2 = AB_SETS['shift' if cfg['ab'] != 'shift' else 'mixed']
    S2 = add_source('S2', perm2, ab2, ['u'])
    w.dc = DataCollection([w.R, S, S2])
    for name in ('S', 'S2'):
        D = w.sources[name]
        for ia, (ra, a, b) in enumerate(w.maps[name]):
            f = (lambda a, b: (lambda x: a * x + b))(a, b)
            g = (lambda a, b: (lambda y: (y - b) / a))(a, b)
            if cfg.get('world') and name == 'S':
                w.dc.add_link(LinkSame(w.R.world_component_ids[ra], D.world_component_ids[ia]))
            elif cfg.get('same') and name == 'S':
                if (a, b) != (1.0, 0.0):
                    raise core.EngineError('pixel-aligned configurations need the unit map')
                w.dc.add_link(LinkSame(w.R.pixel_component_ids[ra], D.pixel_component_ids[ia]))
            else:
                w.dc.add_link(LinkTwoWay(w.R.pixel_component_ids[ra], D.pixel_component_ids[ia], f, g))
    # selections on S, with masks computed from their definitions
    px = np.meshgrid(*[np.arange(s) for s in S.shape], indexing='ij')
    w.states = {}
    w.masks = {}
    # a rectangle in S's own pixel frame that separates neighbouring pixels along both of its axes
    w.states['roi'] = RoiSubsetState(S.pixel_component_ids[-1], S.pixel_component_ids[-2],
                                     RectangularROI(0.5, 1.5, -0.5, 0.5))
    w.masks['roi'] = (px[-1] > 0.5) & (px[-1] < 1.5) & (px[-2] > -0.5) & (px[-2] < 0.5)
    thr = float(np.median(w.arrays[('S', 's')])) + 0.25
    w.states['ineq'] = S.id['s'] > thr
    w.masks['ineq'] = w.arrays[('S', 's')] > thr
    if cfg.get('same'):
        # selections defined on the REFERENCE: a different slice along every reference axis (stepped, partial,
        # single), and a pixel selection; on the source they select the elements whose shared pixel coordinates
        # lie inside the slices of the corresponding reference axes
        rsl = [slice(1, None), slice(0, 2), slice(0, None, 2)][3 - len(rshape):]
        w.states['slice'] = SliceSubsetState(w.R, list(rsl))
        psl = [slice(1, 2), slice(None), slice(2, 3)][3 - len(rshape):]
        w.states['pixel'] = PixelSubsetState(w.R, list(psl))
        for key, sls in (('slice', rsl), ('pixel', psl)):
            m = np.ones(S.shape, dtype=bool)
            for ia, (ra, a, b) in enumerate(w.maps['S']):
                inside = np.zeros(S.shape[ia], dtype=bool)
                inside[sls[ra]] = True
                m &= inside[px[ia]]
            w.masks[key] = m
    w.ties = 0
    if cfg.get('relink'):
        # the links were REPLACED after the collection had been used (what the link editor does through
        # set_links): the same pixel attributes stay reachable, through different maps
        S.compute_fixed_resolution_buffer([(0, n - 1, n) for n in rshape], target_data=w.R, target_cid=S.id['s'])
        ab_new = AB_SETS[cfg['relink']]
        w.maps['S'] = [(ra, ab_new[ia][0], ab_new[ia][1]) for ia, ra in enumerate(cfg['perm'])]
        links = []
        for name in ('S', 'S2'):
            D = w.sources[name]
            for ia, (ra, a, b) in enumerate(w.maps[name]):
                f = (lambda a, b: (lambda x: a * x + b))(a, b)
                g = (lambda a, b: (lambda y: (y - b) / a))(a, b)
                links.append(LinkTwoWay(w.R.pixel_component_ids[ra], D.pixel_component_ids[ia], f, g))
        w.dc.set_links(links)
    return w


# --------------------------------------------------------------------------- oracle
def sample_axes(bounds):
    return [np.linspace(*b) if isinstance(b, tuple) else np.array([b], dtype=float) for b in bounds]


def oracle(w, source, bounds, attr=None, mask=None):
    """Nearest-pixel resampling from the definition.  Returns (array, n_invalid, n_valid)."""
    S = w.sources[source]
    G = np.meshgrid(*sample_axes(bounds), indexing='ij')
    idx = []
    invalid = np.zeros(G[0].shape, dtype=bool)
    for ia, (ra, a, b) in enumerate(w.maps[source]):
        t = a * G[ra] + b
        frac = t - np.floor(t)
        w.ties += int(np.sum(np.abs(frac - 0.5) < 1e-6))
        q = np.round(t).astype(int)
        bad = (q < 0) | (q >= S.shape[ia])
        invalid |= bad
        idx.append(np.where(bad, 0, q))
    if attr is not None:
        out = w.arrays[(source, attr)][tuple(idx)].astype(float)
        out[invalid] = np.nan
    else:
        full = (w.arrays[(source, 's')] > float(mask[4:])) if mask.startswith('tmp:') else w.masks[mask]
        out = full[tuple(idx)].copy()
        out[invalid] = False
    sl = tuple(slice(None) if isinstance(b, tuple) else 0 for b in bounds)
    return out[sl], int(invalid[sl].sum()), int((~invalid[sl]).sum())


def eq(a, b):
    a = np.asarray(a)
    b = np.asarray(b)
    if a.shape != b.shape:
        return False
    if a.dtype == bool or b.dtype == bool:
        return a.dtype == b.dtype and bool((a == b).all())
    return bool(((a == b) | (np.isnan(a) & np.isnan(b))).all())


def jarr(a):
    a = np.asarray(a)
    return dict(shape=list(a.shape), dtype=str(a.dtype),
                values=a.tolist() if a.size <= 60 else '...')


# --------------------------------------------------------------------------- requests
def jb(bounds):
    return [list(b) if isinstance(b, tuple) else b for b in bounds]


def unjb(bounds):
    return [tuple(b) if isinstance(b, list) else b for b in bounds]


def real_request(w, req, cache_id=None):
    """req = [kind, source, what, bounds]  kind in 'val'/'mask'."""
    kind, source, what, bounds = req[:4]
    S = w.sources[source]
    # an optional 5th element names ANOTHER reference dataset (frame) for the same request
    target = w.sources[req[4]] if len(req) > 4 else w.R
    bounds = unjb(bounds)
    kw = {} if cache_id is None else dict(cache_id=cache_id)
    if kind == 'val':
        return S.compute_fixed_resolution_buffer(list(bounds), target_data=target, target_cid=S.id[what], **kw)
    if what.startswith('tmp:'):
        # a selection object made for this one request and dropped right after it (what a viewer does while the
        # user drags a threshold): a later object may well live at the same address
        state = S.id['s'] > float(what[4:])
    else:
        state = w.states[what]
    return S.compute_fixed_resolution_buffer(list(bounds), target_data=target, subset_state=state, **kw)


def oracle_request(w, req):
    kind, source, what, bounds = req
    bounds = unjb(bounds)
    if kind == 'val':
        return oracle(w, source, bounds, attr=what)
    return oracle(w, source, bounds, mask=what)


def bound_options(n):
    return [-1, 0, 1, n, (0, n - 1, n), (-1, n, n + 2), (0.2, n - 1.3, 3), (n + 1, n + 3, 2)]


def bound_class(b, n):
    if not isinstance(b, tuple):
        return 's' if 0 <= b < n else 'S'          # scalar inside / outside the reference
    lo, hi, _ = b
    if lo >= n or hi < 0:
        return 'O'                                 # range wholly outside
    if lo < 0 or hi > n - 1:
        return 'P'                                 # partly outside
    return 'r' if float(lo).is_integer() else 'f'  # on pixel centres / fractional positions


def check_requests(res, cfg, first):
    """All bounds whose first-axis option is `first` x {value s, value t, mask roi, mask ineq}."""
    core.reset_globals()
    w = build_world(cfg)
    rshape = tuple(cfg['rshape'])
    cc = cfg_class(cfg)
    opts = [bound_options(n) for n in rshape]
    for rest in itertools.product(*opts[1:]):
        bounds = [opts[0][first]] + list(rest)
        if cfg.get('origin'):
            O = cfg['origin']
            bounds = [(b[0] + O, b[1] + O, b[2]) if isinstance(b, tuple) else b + O for b in bounds]
        bcls = ''.join(bound_class(b, n) for b, n in zip(bounds, rshape))
        whats = [('val', 's'), ('val', 't'), ('mask', 'roi'), ('mask', 'ineq')]
        if cfg.get('same'):
            whats = [('val', 's'), ('mask', 'slice'), ('mask', 'pixel'), ('mask', 'roi')]
        for kind, what in whats:
            req = [kind, 'S', what, jb(bounds)]
            exp, ninv, nval = oracle_request(w, req)
            case = dict(kind='request', cfg=cfg, request=req)
            nontrivial = nval > 0 and np.size(exp) > 1 and (kind == 'val' or (exp.any() and not exp.all()))
            res.case(sig=('req', cfg['rshape'], cfg['perm'], cfg['ab'], req) if nontrivial else None,
                     sample=case)
            if ninv and nval:
                res.count('requests_partly_outside_source')
            try:
                got = real_request(w, req)
            except Exception as e:
                res.violation(kind + '-raises', '%s:%s|raises:%s|%s' % (kind, what, type(e).__name__, cc),
                              dict(case, bounds_class=bcls), repr(e), jarr(exp))
                continue
            if not eq(got, exp):
                res.violation(kind, '%s:%s|%s' % (kind, what, cc), dict(case, bounds_class=bcls),
                              jarr(got), jarr(exp))
    res.count('rounding_ties_in_oracle(must be 0)', w.ties)
    if w.ties:
        raise core.EngineError('C16 harness error: %d sample positions on a rounding tie for %r' % (w.ties, cfg))


# --------------------------------------------------------------------------- cache sequences
def _tmp_thresholds(cfg):
    """three thresholds inside the value range of S.s (values k*arange+c): different non-trivial masks"""
    k, c = VALUE_PALETTES[core.seed() % len(VALUE_PALETTES)]
    n = int(np.prod(cfg['rshape'][:len(cfg['perm'])])) if False else None
    size = 1
    for ra in cfg['perm']:
        size *= cfg['rshape'][ra]
    vals = sorted(k * i + c for i in range(size))
    return [vals[size // 4] + 0.25, vals[size // 2] + 0.25, vals[(3 * size) // 4] + 0.25]


def cache_alphabet(cfg):
    """~12 requests: different bounds (scalar moved along every axis, other ranges, other orientation, full
    cube), attributes, selections and datasets."""
    rshape = tuple(cfg['rshape'])
    nd = len(rshape)
    full = [(0, n - 1, n) for n in rshape]

    def with_scalar(axis, value, base=None):
        b = list(base or full)
        b[axis] = value
        return b
    A = []
    if nd == 3:
        # pairs that differ only in one scalar (every axis), only in one range, only in the attribute, only in
        # the selection, only in the dataset; plus other orientations and the full cube
        A.append(('v.s@0=0', ['val', 'S', 's', jb(with_scalar(0, 0))]))
        A.append(('v.s@0=1', ['val', 'S', 's', jb(with_scalar(0, 1))]))
        A.append(('v.s@1=1', ['val', 'S', 's', jb(with_scalar(1, 1))]))
        A.append(('v.s@1=2', ['val', 'S', 's', jb(with_scalar(1, 2))]))
        A.append(('v.s@2=2', ['val', 'S', 's', jb(with_scalar(2, 2))]))
        A.append(('v.s@1=1/wide0', ['val', 'S', 's', jb(with_scalar(1, 1, [(-1, 2, 4), None, (0, 3, 4)]))]))
        A.append(('m.roi@0=0', ['mask', 'S', 'roi', jb(with_scalar(0, 0))]))
        A.append(('m.ineq@0=0', ['mask', 'S', 'ineq', jb(with_scalar(0, 0))]))
        A.append(('v.t@0=0', ['val', 'S', 't', jb(with_scalar(0, 0))]))
        A.append(('v.u:S2@0=0', ['val', 'S2', 'u', jb(with_scalar(0, 0))]))
        A.append(('v.s/cube', ['val', 'S', 's', jb(full)]))
        A.append(('m.roi@0=1/wide1', ['mask', 'S', 'roi', jb(with_scalar(0, 1, [None, (-1, 3, 5), (0, 3, 4)]))]))
        # the same source and bounds, but asked in the pixel frame of another reference dataset
        A.append(('v.s@0=0/frame:S2', ['val', 'S', 's', jb(with_scalar(0, 0)), 'S2']))
        for thr in _tmp_thresholds(cfg):
            A.append(('m.tmp%g@0=0' % thr, ['mask', 'S', 'tmp:%r' % thr, jb(with_scalar(0, 0))]))
    else:
        A.append(('v.s/full', ['val', 'S', 's', jb(full)]))
        A.append(('v.s@0=0', ['val', 'S', 's', jb(with_scalar(0, 0))]))
        A.append(('v.s@0=1', ['val', 'S', 's', jb(with_scalar(0, 1))]))
        A.append(('v.s@1=1', ['val', 'S', 's', jb(with_scalar(1, 1))]))
        A.append(('v.s@1=2', ['val', 'S', 's', jb(with_scalar(1, 2))]))
        A.append(('m.roi/full', ['mask', 'S', 'roi', jb(full)]))
        A.append(('m.roi/wide', ['mask', 'S', 'roi', jb([(-1, 3, 5), (0, 3, 4)])]))
        A.append(('v.t/full', ['val', 'S', 't', jb(full)]))
        A.append(('m.ineq/full', ['mask', 'S', 'ineq', jb(full)]))
        A.append(('v.u:S2/full', ['val', 'S2', 'u', jb(full)]))
        A.append(('v.s/sub', ['val', 'S', 's', jb([(0, 2, 3), (1, 3, 3)])]))
        A.append(('m.roi@0=1', ['mask', 'S', 'roi', jb(with_scalar(0, 1))]))
        A.append(('v.s/full/frame:S2', ['val', 'S', 's', jb(full), 'S2']))
        for thr in _tmp_thresholds(cfg):
            A.append(('m.tmp%g/full' % thr, ['mask', 'S', 'tmp:%r' % thr, jb(full)]))
    return A


def run_sequence(w, alphabet, reference, seq, cache_id='cache-1'):
    """Execute seq (indices) with a cache id on fresh caches; returns index of the first step whose
    result differs from the uncached reference (or -1), and what was observed.  A request whose uncached
    execution raised (reference None; already reported by cache_reference) is executed but not compared."""
    core.reset_globals()
    for pos, i in enumerate(seq):
        try:
            got = real_request(w, alphabet[i][1], cache_id=cache_id)
        except Exception as e:
            if reference[i] is None:
                continue
            return pos, repr(e)
        if reference[i] is not None and not eq(got, reference[i]):
            return pos, jarr(got)
    return -1, None


def minimise(w, alphabet, reference, seq):
    """Shortest subsequence (by deleting earlier requests) whose LAST request still disagrees."""
    seq = list(seq)
    changed = True
    while changed and len(seq) > 1:
        changed = False
        for j in range(len(seq) - 2, -1, -1):
            cand = seq[:j] + seq[j + 1:]
            pos, _ = run_sequence(w, alphabet, reference, cand)
            if pos == len(cand) - 1:
                seq = cand
                changed = True
                break
    return seq


def cache_reference(res, w, cfg, alphabet):
    """Uncached result of every request of the alphabet, itself compared with the oracle."""
    core.reset_globals()
    ref = []
    ok = True
    for name, req in alphabet:
        if len(req) > 4:
            # request in the frame of another reference dataset: no model map is kept for that frame, the cache
            # clause only needs the uncached result of the very same request
            try:
                ref.append(real_request(w, req))
            except Exception:
                ref.append(None)
            continue
        exp, ninv, nval = oracle_request(w, req)
        try:
            got = real_request(w, req)
        except Exception as e:
            ok = False
            res.violation(req[0] + '-raises', '%s:%s|raises:%s|%s' % (req[0], req[2], type(e).__name__, cfg_class(cfg)),
                          dict(kind='request', cfg=cfg, request=req), repr(e), jarr(exp))
            ref.append(None)
            continue
        if not eq(got, exp):
            ok = False
            res.violation(req[0], '%s:%s|%s' % (req[0], req[2], cfg_class(cfg)),
                          dict(kind='request', cfg=cfg, request=req), jarr(got), jarr(exp))
        ref.append(got)
    return ref, ok


def check_sequences(res, cfg, first, length):
    w = build_world(cfg)
    alphabet = cache_alphabet(cfg)
    ref, ok = cache_reference(res, w, cfg, alphabet)
    cc = cfg_class(cfg)
    n = len(alphabet)
    for rest in itertools.product(range(n), repeat=length - 1):
        seq = [first] + list(rest)
        pos, obs = run_sequence(w, alphabet, ref, seq)
        res.case(sig=('seq', cfg['rshape'], cfg['perm'], cfg['ab'], seq) if len(set(seq)) > 1 else None,
                 sample=dict(kind='sequence', cfg=cfg, names=[alphabet[i][0] for i in seq]), n=1)
        res.count('cache_requests_executed', len(seq) if pos < 0 else pos + 1)
        if pos >= 0:
            bad = minimise(w, alphabet, ref, seq[:pos + 1])
            names = [alphabet[i][0] for i in bad]
            _, obs = run_sequence(w, alphabet, ref, bad)
            res.violation('cache', 'cache|%s|%s' % (cc, '>'.join(names)),
                          dict(kind='sequence', cfg=cfg, seq=bad, names=names, found_in=seq),
                          obs, jarr(ref[bad[-1]]))
    if w.ties:
        raise core.EngineError('C16 harness error: %d sample positions on a rounding tie for %r' % (w.ties, cfg))


# --------------------------------------------------------------------------- image layer states (thorough)
def image_setup(w):
    from glue.viewers.image.state import ImageViewerState, ImageLayerState, ImageSubsetLayerState
    vs = ImageViewerState()
    lr = ImageLayerState(viewer_state=vs, layer=w.R)
    vs.layers.append(lr)
    S = w.sources['S']
    ls = ImageLayerState(viewer_state=vs, layer=S)
    vs.layers.append(ls)
    if not S.subsets:
        w.dc.new_subset_group('g-ineq', w.states['ineq'])
        w.dc.new_subset_group('g-roi', w.states['roi'])
    lm = []
    for sub, what in zip(S.subsets, ('ineq', 'roi')):
        m = ImageSubsetLayerState(viewer_state=vs, layer=sub)
        vs.layers.append(m)
        lm.append((what, m))
    if vs.reference_data is not w.R:
        vs.reference_data = w.R
    return vs, ls, lm


def image_set(w, vs, ls, step):
    """step = [x_axis, y_axis, slices, attribute]"""
    x, y, slices, attr = step
    pix = w.R.pixel_component_ids
    if vs.x_att is not pix[x] or vs.y_att is not pix[y]:
        # go through a state in which both differ from the target to avoid the automatic x/y swap
        vs.x_att = pix[x]
        vs.y_att = pix[y]
        if vs.x_att is not pix[x]:
            vs.x_att = pix[x]
    vs.slices = tuple(slices)
    S = w.sources['S']
    if ls.attribute is not S.id[attr]:
        ls.attribute = S.id[attr]
    return vs.x_att is pix[x] and vs.y_att is pix[y] and tuple(vs.slices) == tuple(slices)


def image_expected(w, step, form):
    """Plane shown for the step: bounds over the full x/y extent (or the view / explicit bounds given by
    `form`), scalars elsewhere; (y, x) orientation."""
    x, y, slices, attr = step
    rshape = w.R.shape
    bounds = list(slices)
    kind, arg = form
    if kind == 'full':
        bx, by = (0, rshape[x] - 1, rshape[x]), (0, rshape[y] - 1, rshape[y])
    elif kind == 'view':            # arg = [[start, stop, step] for y, same for x]
        def s2b(s, n):
            idx = np.arange(n)[slice(*s)]
            return (float(idx[0]), float(idx[-1]), len(idx))
        by, bx = s2b(arg[0], rshape[y]), s2b(arg[1], rshape[x])
    else:                           # explicit bounds [(ymin, ymax, ny), (xmin, xmax, nx)]
        by, bx = tuple(arg[0]), tuple(arg[1])
    bounds[x] = bx
    bounds[y] = by
    free = [ra for ra in range(len(rshape)) if ra not in [m[0] for m in w.maps['S']]]
    incompatible = any(ra in (x, y) for ra in free)     # documented: broadcast=False raises
    val, _, nval = oracle(w, 'S', bounds, attr=attr)
    msk = dict((what, oracle(w, 'S', bounds, mask=what)[0]) for what in ('ineq', 'roi'))
    if y > x:
        val = val.T
        msk = dict((k, m.T) for k, m in msk.items())
    return val, msk, incompatible, nval


IMAGE_FORMS = [['full', None], ['view', [[None, None, 2], [1, None, None]]],
               ['view', [[1, 2, None], [None, None, None]]],
               ['bounds', [[-1, 2, 4], [0.2, 2.7, 3]]]]


def image_call(layer_state, form):
    kind, arg = form
    if kind == 'full':
        return layer_state.get_sliced_data()
    if kind == 'view':
        return layer_state.get_sliced_data(view=[slice(*arg[0]), slice(*arg[1])])
    return layer_state.get_sliced_data(bounds=[tuple(arg[0]), tuple(arg[1])])


def image_steps(cfg):
    rshape = tuple(cfg['rshape'])
    nd = len(rshape)
    steps = []
    for x, y in itertools.permutations(range(nd), 2):
        others = [i for i in range(nd) if i not in (x, y)]
        for vals in itertools.product(*[range(rshape[i]) for i in others]):
            sl = [0] * nd
            for i, v in zip(others, vals):
                sl[i] = v
            for attr in ('s', 't'):
                steps.append([x, y, sl, attr])
    return steps


def image_observe(res, w, cfg, vs, ls, lm, step, form, seq=None):
    from glue.core.exceptions import IncompatibleDataException
    val, msk, incompatible, nval = image_expected(w, step, form)
    cc = cfg_class(cfg)
    ok = True
    layers = [('image-value:' + step[3], ls, val)] + [('image-mask:' + what, m, msk[what]) for what, m in lm]
    for name, layer, exp in layers:
        case = dict(kind='image', cfg=cfg, step=step, form=form, layer=name, seq=seq)
        try:
            got = image_call(layer, form)
        except IncompatibleDataException:
            if incompatible:
                continue
            got = 'IncompatibleDataException'
        except Exception as e:
            got = repr(e)
        else:
            if incompatible:
                got = 'no IncompatibleDataException: ' + core._clip(jarr(got), 200)
        if isinstance(got, str) or not eq(got, exp):
            ok = False
            key = '%s|%s|form=%s%s' % (name, cc, form[0], '|seq' if seq else '')
            if isinstance(got, str):
                key += '|' + got.split('(')[0].split(':')[0]
            res.violation(name, key, case, got if isinstance(got, str) else jarr(got),
                          'IncompatibleDataException' if incompatible else jarr(exp))
    return ok, (nval > 0 and not incompatible)


def check_image_single(res, cfg):
    core.reset_globals()
    w = build_world(cfg)
    vs, ls, lm = image_setup(w)
    for step in image_steps(cfg):
        if not image_set(w, vs, ls, step):
            raise core.EngineError('C16 harness could not set image viewer state %r for %r' % (step, cfg))
        for form in IMAGE_FORMS:
            ok, nontrivial = image_observe(res, w, cfg, vs, ls, lm, step, form)
            res.case(sig=('img', cfg['rshape'], cfg['perm'], cfg['ab'], step, form) if nontrivial else None,
                     sample=dict(kind='image', cfg=cfg, step=step, form=form))


def image_seq_alphabet(cfg):
    """Viewer-state settings visited in sequence by one pair of layer states (their uuid is the cache id)."""
    nd = len(cfg['rshape'])
    if nd == 3:
        return [[2, 1, [0, 0, 0], 's'], [2, 1, [1, 0, 0], 's'], [2, 1, [1, 0, 0], 't'], [1, 2, [0, 0, 0], 's'],
                [2, 0, [0, 1, 0], 's'], [2, 0, [0, 2, 0], 's'], [1, 0, [0, 0, 3], 't'], [0, 1, [0, 0, 1], 's']]
    return [[1, 0, [0, 0], 's'], [0, 1, [0, 0], 's'], [1, 0, [0, 0], 't'], [0, 1, [0, 0], 't']]


def check_image_sequences(res, cfg, first, length, only=None):
    alpha = image_seq_alphabet(cfg)
    forms = [IMAGE_FORMS[0], IMAGE_FORMS[1]]
    seqs = [only] if only is not None else \
        [[first] + list(r) for r in itertools.product(range(len(alpha)), repeat=length - 1)]
    for seq in seqs:
        core.reset_globals()
        w = build_world(cfg)
        vs, ls, lm = image_setup(w)
        good = True
        for pos, i in enumerate(seq):
            step = alpha[i]
            if not image_set(w, vs, ls, step):
                raise core.EngineError('C16 harness could not set image viewer state %r for %r' % (step, cfg))
            form = forms[(pos + i) % 2]
            ok, _ = image_observe(res, w, cfg, vs, ls, lm, step, form, seq=seq[:pos + 1])
            if not ok:
                good = False
                break
        res.case(sig=('imgseq', cfg['rshape'], cfg['perm'], cfg['ab'], seq) if len(set(seq)) > 1 else None,
                 sample=dict(kind='image-seq', cfg=cfg, seq=seq))


# --------------------------------------------------------------------------- driver
def seq_len(tier):
    return 3 if tier == 'quick' else 4


def cache_configs(tier):
    """Geometries whose request sequences are enumerated: the non-trivial maps, plus the lower-dimensional
    sources with the unit map (where whole reference axes are wildcards).  thorough is a superset of quick."""
    return [c for c in configs(tier) if c['ab'] in ('mixed', 'flip') or
            (c['ab'] == 'unit' and len(c['perm']) < len(c['rshape']))]


def all_cases(tier):
    cases = []
    for cfg in configs(tier):
        for first in range(8):
            cases.append(['req', cfg, first])
    # the same geometry seen from FAR reference positions (pixel coordinates around 2**24, where float32 can no
    # longer tell neighbouring pixels apart): all bounds shifted by the origin, the link offsets shifted back
    for cfg in [dict(rshape=[3, 4], perm=[1, 0], ab='mixed'), dict(rshape=[2, 3, 4], perm=[2, 0, 1], ab='shift')]:
        for first in range(8):
            cases.append(['req', dict(cfg, origin=FAR), first])
    # the same requests after the links have been replaced (set_links) by links with another scale/offset
    for cfg in configs(tier):
        if cfg['ab'] == 'mixed' and (tier == 'thorough' or len(cfg['rshape']) == 2 or cfg['perm'] == list(range(3))):
            for first in range(8):
                cases.append(['req', dict(cfg, relink='shift'), first])
    for cfg in cache_configs(tier):
        for first in range(len(cache_alphabet(cfg))):
            cases.append(['seq', cfg, first, seq_len(tier)])
    # the plane an image viewer shows (ImageLayerState / ImageSubsetLayerState.get_sliced_data): every
    # (x, y, slices, attribute) single request in both tiers; viewer-state sequences of length 2 (quick) / 3 (thorough)
    for cfg in configs(tier):
        if cfg['ab'] in ('unit', 'mixed'):
            cases.append(['img', cfg])
            for first in range(len(image_seq_alphabet(cfg))):
                cases.append(['imgseq', cfg, first, 3 if tier == 'thorough' else 2])
    return cases


def do_case(res, c):
    if c[0] == 'req':
        check_requests(res, c[1], c[2])
    elif c[0] == 'seq':
        check_sequences(res, c[1], c[2], c[3])
    elif c[0] == 'img':
        check_image_single(res, c[1])
    elif c[0] == 'imgseq':
        check_image_sequences(res, c[1], c[2], c[3])


def work(shard):
    tier, cases = shard
    core.bind()
    res = core.Result()
    for c in cases:
        core.reset_globals()
        do_case(res, c)
    return res


RULE = ('value/mask: full product of 8 per-axis bound options (scalars -1,0,1,n; ranges inside, partly outside, '
        'fractional, wholly outside) x {2 attributes, 2 selections} for every link geometry (axis permutation or '
        'lower-dimensional source x 2-4 scale/offset maps).  cache: every sequence of exactly L requests (L=3 quick, '
        '4 thorough; shorter ones are its prefixes, every step is compared) over a 12-request alphabet, fresh caches '
        'per sequence.  thorough adds get_sliced_data of image layer states for every (x, y, slices, attribute) x 4 '
        'view/bounds forms and every length-3 sequence of viewer-state changes.  non-trivial = at least one sample '
        'inside the source, more than one sample, a mask that is neither empty nor full; a sequence with at least two '
        'different requests')

ASSUMPTIONS = [
    'links are per-axis affine maps between pixel component ids (LinkTwoWay through a DataCollection); world-'
    'coordinate (WCS/affine) links and multi-hop links are not enumerated',
    'data, selections and links are unchanged inside a sequence (the statement says "for unchanged data"; link '
    'changes under a cache id are a documented TODO in the code)',
    'no sample position maps onto a rounding tie (x.5) of the source pixel grid (asserted: counted ties must be 0)',
    'broadcast=True (default) for direct requests; image layer states use broadcast=False, where '
    'IncompatibleDataException is the documented outcome when a displayed axis does not reach the source',
    'sources have at most as many dimensions as the reference; shapes (3,4) and (2,3,4); dask components excluded',
    'image layer states are driven without a GUI through ImageViewerState/ImageLayerState/ImageSubsetLayerState; '
    'AggregateSlice slices are not enumerated (aggregation is outside the statement)',
]


def run(tier):
    t0 = time.time()
    cases = all_cases(tier)
    # heavy sequence cases first, then rotate inside the groups
    cases = core.rotate(cases)
    total = core.run_shards(work, [(tier, s) for s in core.split(cases, core.jobs() * 8)])
    kinds = {}
    for c in cases:
        kinds[c[0]] = kinds.get(c[0], 0) + 1
    dims = dict(link_geometries=len(configs(tier)), bound_options_per_axis=8, request_kinds=4,
                cache_geometries=len(cache_configs(tier)), cache_alphabet=12, cache_sequence_length=seq_len(tier),
                cache_sequences=len(cache_configs(tier)) * 12 ** seq_len(tier), case_groups=kinds)
    return core.finish(PROP, tier, total, 'exploration', RULE, t0,
                       coverage=dict(product_dimensions=dims), confirm=confirm, assumptions=ASSUMPTIONS)


def confirm(v, verbose=False):
    core.reset_globals()
    res = core.Result()
    c = v['case']
    cfg = c['cfg']
    if c['kind'] == 'request':
        w = build_world(cfg)
        exp, _, _ = oracle_request(w, c['request'])
        try:
            got = real_request(w, c['request'])
            bad = not eq(got, exp)
            obs = jarr(got)
        except Exception as e:
            bad, obs = True, repr(e)
        if verbose:
            print('  request ', core.jdump(c['request']))
            print('  observed', core._clip(obs))
            print('  expected', core._clip(jarr(exp)))
        return bad
    if c['kind'] == 'sequence':
        w = build_world(cfg)
        alphabet = cache_alphabet(cfg)
        ref, _ = cache_reference(res, w, cfg, alphabet)
        pos, obs = run_sequence(w, alphabet, ref, c['seq'])
        if verbose:
            print('  sequence', c['names'])
            print('  with cache id, step %d ->' % pos, core._clip(obs))
            print('  without      ', core._clip(jarr(ref[c['seq'][pos]])) if pos >= 0 else '(all equal)')
        return pos == len(c['seq']) - 1
    if c['kind'] == 'image':
        if c.get('seq'):
            check_image_sequences(res, cfg, None, None, only=c['seq'])
        else:
            w = build_world(cfg)
            vs, ls, lm = image_setup(w)
            image_set(w, vs, ls, c['step'])
            image_observe(res, w, cfg, vs, ls, lm, c['step'], c['form'])
        hit = [x for x in res.violations if x['key'] == v['key']]
        if verbose:
            for x in hit[:1]:
                print('  case    ', core.jdump(x['case']))
                print('  observed', core._clip(x['observed']))
                print('  expected', core._clip(x['expected']))
        return bool(hit)
    return False


def replay(doc):
    return confirm(doc, verbose=True)
