"""C14 - derived attributes compute their defining expression and go with their inputs.

Mode I (complete products):
  tree1   every depth-1 arithmetic expression  a OP b  (OP in + - * / **; a, b over every attribute
          kind - stored float / stored int / pixel_i / world_i / binary-derived / function-derived -
          and the constants 2, 0.5, -1; at least one attribute) x shapes x the full view alphabet
  tree2   every depth-2 expression over a reduced leaf / operator set x a reduced view list
  tree3   (thorough) depth-3 "spines"  (depth-2 tree) OP leaf  and  leaf OP (depth-2 tree)
  func    user functions (identity, elementwise, ravelling, python-scalar-returning; 1 and 2 inputs)
          x every attribute (pair) x full view alphabet
  parsed  text expressions from a small grammar (binary, with constants, numpy calls, unary minus,
          nested, pure constants) x attributes x full view alphabet
 Oracle: the expression evaluated with plain numpy on the full input arrays (built from the
 definition: stored values, np.indices, scale * pixel + offset), then `[view]`.
 A case is skipped (and counted) when an *input* attribute itself does not obey data[a, view] ==
 data[a][view] (that is C04's / C15's business) or when numpy itself raises for the expression.

Mode H (history part, mc.hist.Explorer): all histories of  add d1..d4 / remove any attribute /
 update_id / reorder  up to a depth bound on a real Data, in lock-step with a dependency-graph model:
 after every step the component order, the set of removed attributes (== transitive dependents,
 nothing else) and the values of every derived attribute (whole array and one view) must agree.
"""
import re
import time
import operator
import itertools

import numpy as np

from mc import core, hist

PROP = 'C14'

OPS = {'+': operator.add, '-': operator.sub, '*': operator.mul, '/': operator.truediv, '**': operator.pow}
CONSTS = [2, 0.5, -1]

# value palettes for the stored columns (seed % 3): (x0, dx, n-multiplier, n-modulus, scales, offsets)
PALETTES = [
    dict(x0=0.5, dx=0.75, nm=3, nmod=5, scale=[2.0, 3.0, 0.5], off=[1.0, -1.0, 4.0]),
    dict(x0=-1.5, dx=1.25, nm=2, nmod=7, scale=[0.5, -2.0, 3.0], off=[-2.0, 0.5, 1.0]),
    dict(x0=2.25, dx=-0.5, nm=5, nmod=4, scale=[-1.5, 4.0, 2.0], off=[0.25, 3.0, -1.0]),
]


# ----------------------------------------------------------------------------- views
def enc_view(v):
    if v is None:
        return None
    if isinstance(v, (int, np.integer)):
        return int(v)
    if isinstance(v, slice):
        return ['s', v.start, v.stop, v.step]
    if v is Ellipsis:
        return ['e']
    if isinstance(v, np.ndarray):
        return ['b' if v.dtype == bool else 'i', v.tolist()]
    if isinstance(v, tuple):
        return ['t', [enc_view(x) for x in v]]
    raise core.EngineError('cannot encode view %r' % (v,))


def dec_view(v):
    if v is None or isinstance(v, int):
        return v
    tag = v[0]
    if tag == 's':
        return slice(v[1], v[2], v[3])
    if tag == 'e':
        return Ellipsis
    if tag == 'b':
        return np.array(v[1], dtype=bool)
    if tag == 'i':
        return np.array(v[1], dtype=int)
    if tag == 't':
        return tuple(dec_view(x) for x in v[1])
    raise core.EngineError('bad view %r' % (v,))


PAL = [slice(None), slice(1, None), slice(None, -1), slice(None, None, 2), slice(1, 2), slice(0, 0), 0, -1]


def view_alphabet(shape, full=True):
    """The statement's domain restricted to ComponentLink.compute's documented view types
    (slice or tuple): None, bare slices (1-d), tuples of slices / ints of every length, tuples of
    integer index arrays, a tuple holding a full-shape boolean mask, Ellipsis-led tuples."""
    nd = len(shape)
    views = [None]
    if full:
        for k in range(1, nd + 1):
            for t in itertools.product(PAL, repeat=k):
                views.append(tuple(t))
    else:
        s = slice(None)
        views += [(slice(1, None),), (0,), tuple([0] * nd), tuple([-1] * (nd - 1) + [slice(None, None, 2)]),
                  tuple([slice(None, -1)] * nd), (slice(0, 0),)]
        if nd > 1:
            views += [(s, 0), (slice(1, 2), slice(None, None, 2)), (s,) * (nd - 1) + (slice(1, None),)]
    if nd == 1:
        views += [slice(1, None), slice(None, None, 2)]
    rng = np.arange(int(np.prod(shape))).reshape(shape)
    views.append((rng % 3 != 1,))
    views.append(tuple(np.array([0, s - 1, 0]) for s in shape))
    views.append(tuple(np.array([[0, s - 1], [s - 1, 0]]) for s in shape))
    views.append((Ellipsis, slice(None, None, 2)))
    return views


def view_class(v):
    """Coarse class of a view, used in violation keys."""
    if v is None:
        return 'none'
    if isinstance(v, slice):
        return 'basic'
    if any(isinstance(x, np.ndarray) and x.dtype == bool for x in v):
        return 'mask'
    if any(isinstance(x, np.ndarray) for x in v):
        return 'index-arrays'
    if all(isinstance(x, (int, np.integer)) for x in v):
        return 'ints-only'
    return 'basic'          # slices, ints mixed with slices, Ellipsis, empty slices


# ----------------------------------------------------------------------------- the dataset
def attr_names(nd):
    return ['x', 'n'] + ['p%d' % i for i in range(nd)] + ['w%d' % i for i in range(nd)] + ['d', 'g', 'q']


def attr_kind(name):
    return {'x': 'stored', 'n': 'stored-int', 'p': 'pixel', 'w': 'world', 'd': 'derived', 'g': 'derived-func',
            'q': 'derived-parsed'}[name[0]]


def g_func(a):
    return a * 2 + 1


def make_data(shape, pal):
    """-> (Data, {name: cid}, {name: full expected array}) ; world_i = scale_i * pixel_i + off_i"""
    from glue.core import Data
    from glue.core.component_link import ComponentLink
    from glue.core.component_id import ComponentID
    from glue.core.coordinates import AffineCoordinates
    P = PALETTES[pal]
    shape = tuple(shape)
    nd = len(shape)
    size = int(np.prod(shape))
    m = np.eye(nd + 1)
    for i in range(nd):                      # matrix is in (x, y) order = reversed numpy axis order
        j = nd - 1 - i
        m[j, j] = P['scale'][i]
        m[j, nd] = P['off'][i]
    data = Data(label='D', coords=AffineCoordinates(m))
    vals = {}
    vals['x'] = (P['x0'] + P['dx'] * np.arange(size)).reshape(shape)
    vals['n'] = ((np.arange(size) * P['nm']) % P['nmod'] + 1).reshape(shape)
    data.add_component(vals['x'].copy(), 'x')
    data.add_component(vals['n'].copy(), 'n')
    cids = {'x': data.id['x'], 'n': data.id['n']}
    idx = np.indices(shape)
    for i in range(nd):
        cids['p%d' % i] = data.pixel_component_ids[i]
        cids['w%d' % i] = data.world_component_ids[i]
        vals['p%d' % i] = idx[i]
        vals['w%d' % i] = P['scale'][i] * idx[i] + P['off'][i]
    # a derived attribute defined by an arithmetic expression, and one defined by a function
    data.add_component_link(cids['x'] * 2 + cids['p%d' % (nd - 1)], 'd')
    cids['d'] = data.id['d']
    vals['d'] = vals['x'] * 2 + vals['p%d' % (nd - 1)]
    data.add_component_link(ComponentLink([cids['n']], ComponentID('g'), using=g_func))
    cids['g'] = data.id['g']
    vals['g'] = vals['n'] * 2 + 1
    # ... and one defined by a parsed text expression (so that parsed expressions can nest)
    from glue.core.parse import ParsedCommand, ParsedComponentLink
    qid = ComponentID('q')
    data.add_component_link(ParsedComponentLink(qid, ParsedCommand('{x} * 0.5 + 1', {'x': cids['x']})))
    cids['q'] = qid
    vals['q'] = vals['x'] * 0.5 + 1
    return data, cids, vals


# ----------------------------------------------------------------------------- expressions
# tree: ['op', left, right] | attribute name | number
def tree_leaves(t):
    if isinstance(t, list):
        return tree_leaves(t[1]) + tree_leaves(t[2])
    return [t]


def tree_depth(t):
    return 1 + max(tree_depth(t[1]), tree_depth(t[2])) if isinstance(t, list) else 0


def tree_str(t):
    if isinstance(t, list):
        return '(%s %s %s)' % (tree_str(t[1]), t[0], tree_str(t[2]))
    return str(t)


def tree_link(t, cids):
    if isinstance(t, list):
        return OPS[t[0]](tree_link(t[1], cids), tree_link(t[2], cids))
    return cids[t] if isinstance(t, str) else t


def tree_eval(t, vals):
    if isinstance(t, list):
        return OPS[t[0]](tree_eval(t[1], vals), tree_eval(t[2], vals))
    return vals[t] if isinstance(t, str) else t


def has_attr(t):
    return any(isinstance(x, str) for x in tree_leaves(t))


def depth1(leaves, ops):
    return [[o, a, b] for o in ops for a in leaves for b in leaves if isinstance(a, str) or isinstance(b, str)]


# user functions (looked up by name so that replay files are self-contained)
def f_lin(a):
    return a * 2 + 1


def f_sqrtabs(a):
    return np.sqrt(np.abs(a))


def f_ravel(a):
    return (a * 3).ravel()


def f_pyscalar(a):
    # returns a python float for a 0-d input (the case ComponentLink.compute calls asarray for)
    return float(a) * 0.5 if np.ndim(a) == 0 else a * 0.5


def f_add(a, b):
    return a + b


def f_ravelmul(a, b):
    return (a * b).ravel()


def f_hypot(a, b):
    return np.hypot(a, b)


FUNCS = {
    'identity': (None, lambda a: a, 1),
    'lin': (f_lin, lambda a: a * 2 + 1, 1),
    'sqrtabs': (f_sqrtabs, lambda a: np.sqrt(np.abs(a)), 1),
    'ravel': (f_ravel, lambda a: a * 3, 1),
    'pyscalar': (f_pyscalar, lambda a: a * 0.5, 1),
    'add': (f_add, lambda a, b: a + b, 2),
    'ravelmul': (f_ravelmul, lambda a, b: a * b, 2),
    'hypot': (f_hypot, lambda a, b: np.hypot(a, b), 2),
}

# parsed grammar: template with placeholders A, B, C for attribute tags; K for a constant literal
TEMPLATES = {
    0: ['3', '2.5', '2 + 0.5', '-1', 'np.pi', '(2) ** 0.5'],
    1: ['{A} + K', 'K - {A}', '{A} * K', 'K / {A}', '{A} ** K', 'np.sqrt({A})', '-{A}', 'np.abs({A}) + 1',
        '{ A } * 2', '{A} - {A}'],
    2: ['{A} + {B}', '{A} - {B}', '{A} * {B}', '{A} / {B}', '{A} ** {B}', 'np.abs({A}) + {B}',
        'np.maximum({A}, {B})'],
    3: ['({A} + {B}) * {C}'],
}
KLIT = ['2', '0.5', '(-1)']


# ----------------------------------------------------------------------------- Mode I: one case
def add_case_link(case, data, cids):
    """Register the derived attribute described by the case on real Data -> its ComponentID"""
    from glue.core.component_link import ComponentLink
    from glue.core.component_id import ComponentID
    from glue.core.parse import ParsedCommand, ParsedComponentLink
    k = case['kind']
    if k == 'tree':
        link = tree_link(case['tree'], cids)
        data.add_component_link(link, 'T')
        return link.get_to_id()
    if k == 'func':
        fn = FUNCS[case['func']][0]
        to = ComponentID('T')
        link = ComponentLink([cids[a] for a in case['args']], to, using=fn)
        data.add_component_link(link)
        return to
    if k == 'parsed':
        refs = dict((c.label, c) for c in data.components)
        cmd = case['cmd']
        for ph, a in case['tags'].items():
            cmd = re.sub(r'\{(\s*)%s(\s*)\}' % ph, lambda m: '{' + m.group(1) + cids[a].label + m.group(2) + '}', cmd)
        to = ComponentID('T')
        data.add_component_link(ParsedComponentLink(to, ParsedCommand(cmd, refs)))
        return to
    raise core.EngineError('bad case kind %r' % (k,))


def case_expected(case, vals, shape):
    """Full-array value of the defining expression, from the definition (plain numpy)."""
    k = case['kind']
    if k == 'tree':
        out = tree_eval(case['tree'], vals)
    elif k == 'func':
        out = FUNCS[case['func']][1](*[vals[a] for a in case['args']])
    else:
        cmd = case['cmd']
        for ph, a in case['tags'].items():
            cmd = re.sub(r'\{\s*%s\s*\}' % ph, 'V[%r]' % a, cmd)
        out = eval(cmd, {'np': np, 'V': vals})
    return np.broadcast_to(np.asarray(out), shape)


def case_inputs(case):
    k = case['kind']
    if k == 'tree':
        return [x for x in tree_leaves(case['tree']) if isinstance(x, str)]
    if k == 'func':
        return list(case['args'])
    return list(case['tags'].values())


COARSE = {'stored': 'stored', 'stored-int': 'stored', 'pixel': 'coord', 'world': 'coord',
          'derived': 'derived', 'derived-func': 'derived-func', 'derived-parsed': 'derived-parsed'}


def operand_class(case):
    """Coarse input-structure class used in violation keys (a handful of values)."""
    ins = case_inputs(case)
    if case['kind'] == 'parsed':
        return 'refs' if ins else 'no-attributes'
    kinds = sorted(set(COARSE[attr_kind(a)] for a in ins))
    if case['kind'] == 'tree' and any(not isinstance(x, str) for x in tree_leaves(case['tree'])):
        kinds.append('const')
    return '+'.join(kinds)


def same(a, b):
    a, b = np.asarray(a), np.asarray(b)
    if a.shape != b.shape:
        return False
    if a.dtype.kind not in 'fiub' or b.dtype.kind not in 'fiub':
        return False
    a = a.astype(float)
    b = b.astype(float)
    return bool(np.all((a == b) | (np.isnan(a) & np.isnan(b)) |
                       (np.isfinite(a) & np.isfinite(b) & (np.abs(a - b) <= 1e-12 * np.abs(b)))))


def describe(a):
    a = np.asarray(a)
    return dict(shape=list(a.shape), values=a.tolist() if a.size <= 24 else '...')


def run_case(res, case, pal, views=None):
    """One derived attribute on a fresh Data, evaluated under every view of the list."""
    core.reset_globals()
    shape = tuple(case['shape'])
    data, cids, vals = make_data(shape, pal)
    fam = case['fam']
    try:
        full = case_expected(case, vals, shape)
    except Exception:
        res.case()
        res.count('skipped_numpy_raises_for_expression')
        return
    try:
        cid = add_case_link(case, data, cids)
    except Exception as e:
        res.case()
        res.violation('derived-definition', 'add-raises|%s|%s|%s' % (fam, operand_class(case), type(e).__name__),
                      dict(case, view=None), repr(e), 'attribute added')
        return
    inputs = case_inputs(case)
    opc = operand_class(case)
    if views is None:
        views = view_alphabet(shape, case.get('views', 'full') == 'full')
    for v in views:
        cdoc = dict(case, view=enc_view(v), pal=pal)
        # expected value under the view; views the shape does not admit are not cases
        try:
            exp = full if v is None else full[v]
        except IndexError:
            continue
        # inputs must themselves obey the view contract (C04 / C15 territory otherwise)
        ok_inputs = True
        for a in inputs:
            try:
                got_in = data[cids[a]] if v is None else data[cids[a], v]
                if not same(got_in, vals[a] if v is None else vals[a][v]):
                    ok_inputs = False
            except Exception:
                ok_inputs = False
        if not ok_inputs:
            res.case()
            res.count('skipped_input_attribute_disobeys_view')
            continue
        vc = view_class(v)
        nontrivial = v is not None and np.shape(exp) != shape
        res.case(sig=hash((fam, core.jdump(cdoc))) if nontrivial else None,
                 sample=cdoc if (nontrivial and vc != 'basic') else None)
        res.count('evals_' + fam)
        try:
            got = data[cid] if v is None else data[cid, v]
        except Exception as e:
            res.violation('derived-value', 'raises|%s|%s|view=%s|%s' % (fam, opc, vc, type(e).__name__),
                          cdoc, repr(e), describe(exp))
            continue
        if not same(got, exp):
            what = 'values' if np.shape(got) == np.shape(exp) else 'shape'
            res.violation('derived-value', '%s|%s|%s|view=%s' % (what, fam, opc, vc), cdoc,
                          describe(got), describe(exp))


# ----------------------------------------------------------------------------- Mode I: families
def shapes_for(tier):
    return [[4], [2, 3]] + ([[2, 2, 3]] if tier == 'thorough' else [])


def mode_i_cases(tier):
    t = tier == 'thorough'
    out = []
    for shape in shapes_for(tier):
        nd = len(shape)
        names = attr_names(nd)
        last = 'p%d' % (nd - 1)
        wl = 'w%d' % (nd - 1)
        # tree1: everything at depth 1, full view alphabet
        for tr in depth1(names + CONSTS, list(OPS)):
            out.append(dict(fam='tree1', kind='tree', shape=shape, tree=tr, views='full'))
        # tree2: depth 2 over reduced leaves / operators, reduced views
        if t:
            leaves2, ops2 = ['x', 'p0', wl, 'd', 2], ['+', '*', '**']
        else:
            leaves2, ops2 = ['x', last, 2], ['+', '*']
        if nd == 3 and t:
            leaves2 = ['x', 'p0', wl, 2]
        kids = leaves2 + depth1(leaves2, ops2)
        d2 = [[o, a, b] for o in OPS for a in kids for b in kids
              if (isinstance(a, list) or isinstance(b, list))]
        for tr in d2:
            out.append(dict(fam='tree2', kind='tree', shape=shape, tree=tr, views='short'))
        # tree3: spines
        if t and nd < 3:
            l3, o3 = ['x', last, 2], ['+', '*']
            k3 = l3 + depth1(l3, o3)
            d2s = [[o, a, b] for o in o3 for a in k3 for b in k3
                   if (isinstance(a, list) or isinstance(b, list))]
            for o in ['+', '*', '/']:
                for sub in d2s:
                    if tree_depth(sub) != 2:
                        continue
                    for leaf in l3:
                        out.append(dict(fam='tree3', kind='tree', shape=shape, tree=[o, sub, leaf], views='short'))
                        out.append(dict(fam='tree3', kind='tree', shape=shape, tree=[o, leaf, sub], views='short'))
        # func
        for fname, (fn, ref, nin) in FUNCS.items():
            for args in itertools.product(names, repeat=nin):
                out.append(dict(fam='func', kind='func', shape=shape, func=fname, args=list(args), views='full'))
        # parsed
        pnames = names if (t or nd < 3) else ['x', 'p0', wl, 'd', 'q']
        for cmd in TEMPLATES[0]:
            out.append(dict(fam='parsed', kind='parsed', shape=shape, cmd=cmd, tags={}, views='full'))
        for tpl in TEMPLATES[1]:
            for lit in (KLIT if 'K' in tpl else ['']):
                for a in pnames:
                    out.append(dict(fam='parsed', kind='parsed', shape=shape, cmd=tpl.replace('K', lit),
                                    tags={'A': a}, views='full'))
        for tpl in TEMPLATES[2]:
            for a in pnames:
                for b in pnames:
                    out.append(dict(fam='parsed', kind='parsed', shape=shape, cmd=tpl,
                                    tags={'A': a, 'B': b}, views='full' if (t or tpl == '{A} + {B}') else 'short'))
        for tpl in TEMPLATES[3]:
            for a, b, c in itertools.product(['x', last, wl], repeat=3):
                out.append(dict(fam='parsed', kind='parsed', shape=shape, cmd=tpl,
                                tags={'A': a, 'B': b, 'C': c}, views='short'))
    return out


def work(shard):
    pal, cases = shard
    core.bind()
    res = core.Result()
    for c in cases:
        run_case(res, c, pal)
    return res


# ----------------------------------------------------------------------------- Mode H
# logical attribute -> (kind, inputs); built on a (2,3) Data without coordinates
DEFS = {
    'parsed': {'d1': ('binary', ['x', 'p1']), 'd2': ('func', ['d1', 'y']), 'd3': ('parsed', ['d1', 'x']),
               'd4': ('binary2', ['d2', 'd3'])},
    'plain': {'d1': ('binary', ['x', 'p1']), 'd2': ('func', ['d1', 'y']), 'd3': ('func', ['d1', 'x']),
              'd4': ('binary2', ['d2', 'd3'])},
    # the same attribute occurs in BOTH operands of one arithmetic step (a renamed id must be replaced everywhere)
    'repeat': {'d1': ('rep', ['x', 'y']), 'd2': ('sq', ['x', 'x']), 'd3': ('func', ['d1', 'x']),
               'd4': ('binary2', ['d2', 'd3'])},
    # ONE link object (s = x + y) re-used as the left operand of several wider expressions, as in
    # `s = d.id['x'] + d.id['y']; d['a'] = s * 2; d['b'] = s / d.id['d1']`: each expression depends on its own inputs only
    # the two stored attributes carry the SAME label (legal: identity is the ComponentID, not the label); a text
    # expression refers to both
    'samelabel': {'d1': ('parsed', ['x', 'y']), 'd2': ('binary', ['y', 'p1']), 'd3': ('parsed', ['d2', 'x'])},
    'shared': {'d1': ('binary', ['x', 'p1']), 'd2': ('sh_const', ['x', 'y']), 'd3': ('sh_div', ['x', 'y', 'd1']),
               'd4': ('sh_sub', ['x', 'y', 'd2'])},
}


def h_mul(a, b):
    return a * b


class World(object):
    pass


class Scenario(object):
    """Real Data + a dependency-graph model."""

    def __init__(self, variant, uid_budget=2, uid_names=('x', 'y', 'p1', 'd1', 'd2', 'd3', 'd4'), reorders=('rev', 'rot')):
        self.variant = variant
        self.defs = DEFS[variant]
        self.uid_budget = uid_budget
        self.uid_names = uid_names
        self.reorders = reorders

    def new_world(self):
        from glue.core import Data
        w = World()
        w.violations = []
        shape = (2, 3)
        w.stored = {'x': (0.5 + 0.75 * np.arange(6)).reshape(shape), 'y': (np.arange(6) * 3 % 5 + 1).reshape(shape)}
        w.data = Data(label='H')
        ylabel = 'x' if self.variant == 'samelabel' else 'y'
        cx = w.data.add_component(w.stored['x'].copy(), 'x')
        cy = w.data.add_component(w.stored['y'].copy(), ylabel)
        w.cids = {'x': cx, 'y': cy,
                  'p0': w.data.pixel_component_ids[0], 'p1': w.data.pixel_component_ids[1]}
        # model: ordered logical names, generation counters for labels
        w.order = ['p0', 'p1', 'x', 'y']
        w.labels = {'p0': w.cids['p0'].label, 'p1': w.cids['p1'].label, 'x': 'x', 'y': ylabel}
        w.uids = 0
        return w

    # -- model ------------------------------------------------------------
    def model_value(self, w, name):
        if name in w.stored:
            return w.stored[name]
        if name in ('p0', 'p1'):
            return np.indices((2, 3))[int(name[1])]
        kind, ins = self.defs[name]
        vals = [self.model_value(w, i) for i in ins]
        a, b = vals[:2]
        if kind == 'sh_const':
            return (a + b) * 2
        if kind == 'sh_div':
            return (a + b) / vals[2]
        if kind == 'sh_sub':
            return (a + b) - vals[2]
        if kind == 'binary':
            return a + b * 2
        if kind == 'func':
            return a * b
        if kind == 'parsed':
            return a - b
        if kind == 'binary2':
            return a / 2 + b
        if kind == 'rep':
            return (a - b) / a
        if kind == 'sq':
            return a * b
        raise core.EngineError(kind)

    def dependents(self, w, name):
        out = set()
        for d, (kind, ins) in self.defs.items():
            if d in w.order and name in ins:
                out.add(d)
                out |= self.dependents(w, d)
        return out

    # -- ops ----------------------------------------------------------------
    def enabled(self, w):
        ops = []
        present = set(w.order)
        for d in sorted(self.defs):
            if d not in present and all(i in present for i in self.defs[d][1]):
                ops.append(['add', d])
        for name in w.order:
            if name not in ('p0', 'p1'):
                ops.append(['rm', name])
        if w.uids < self.uid_budget:
            for name in w.order:
                if name in self.uid_names:
                    ops.append(['uid', name])
        for r in self.reorders:
            ops.append(['reorder', r])
        return ops

    def opname(self, op):
        return ':'.join(str(x) for x in op)

    def apply(self, w, op):
        from glue.core.component_link import ComponentLink
        from glue.core.component_id import ComponentID
        from glue.core.parse import ParsedCommand, ParsedComponentLink
        k = op[0]
        data = w.data
        try:
            if k == 'add':
                d = op[1]
                kind, ins = self.defs[d]
                a, b = [w.cids[i] for i in ins][:2]
                label = d
                if kind.startswith('sh_'):
                    if getattr(w, 'shared', None) is None:
                        w.shared = a + b
                    link = {'sh_const': lambda: w.shared * 2, 'sh_div': lambda: w.shared / w.cids[ins[2]],
                            'sh_sub': lambda: w.shared - w.cids[ins[2]]}[kind]()
                    data.add_component_link(link, label)
                    cid = link.get_to_id()
                elif kind == 'binary':
                    link = a + b * 2
                    data.add_component_link(link, label)
                    cid = link.get_to_id()
                elif kind in ('rep', 'sq'):
                    link = (a - b) / a if kind == 'rep' else a * b
                    data.add_component_link(link, label)
                    cid = link.get_to_id()
                elif kind == 'func':
                    cid = ComponentID(label)
                    data.add_component_link(ComponentLink([a, b], cid, using=h_mul))
                elif kind == 'parsed':
                    cid = ComponentID(label)
                    refs = {'first': a, 'second': b}     # (keys are the author's; labels may coincide)
                    cmd = '{first} - {second}'
                    data.add_component_link(ParsedComponentLink(cid, ParsedCommand(cmd, refs)))
                else:
                    link = a / 2 + b
                    data.add_component_link(link, label)
                    cid = link.get_to_id()
                w.cids[d] = cid
                w.order.append(d)
                w.labels[d] = label
            elif k == 'rm':
                name = op[1]
                before = [c for c in data.components]
                gone_model = {name} | self.dependents(w, name)
                data.remove_component(w.cids[name])
                after = data.components
                gone_real = set(c.label for c in before if not any(c is a for a in after))
                gone_labels = set(w.labels[n] for n in gone_model)
                if gone_real != gone_labels:
                    w.violations.append(('remove-dependents', sorted(gone_real), sorted(gone_labels),
                                         'removing %s' % w.labels[name]))
                w.order = [n for n in w.order if n not in gone_model]
                for n in gone_model:
                    w.cids.pop(n, None)
                    w.labels.pop(n, None)
            elif k == 'uid':
                name = op[1]
                w.uids += 1
                label = w.labels[name] + 'r'
                new = ComponentID(label)
                data.update_id(w.cids[name], new)
                w.cids[name] = new
                w.labels[name] = label
            elif k == 'reorder':
                comps = data.components
                new = comps[::-1] if op[1] == 'rev' else comps[1:] + comps[:1]
                data.reorder_components(new)
                w.order = w.order[::-1] if op[1] == 'rev' else w.order[1:] + w.order[:1]
            else:
                raise core.EngineError('unknown op %r' % (op,))
        except core.EngineError:
            raise
        except Exception as e:
            w.violations.append(('op-raises', '%s in %s' % (type(e).__name__, self.opname(op)), 'no exception',
                                 repr(e)))

    VIEW = (slice(None), slice(1, None))

    def check(self, w):
        out = []
        real_order = [c.label for c in w.data.components]
        model_order = [w.labels[n] for n in w.order]
        if real_order != model_order:
            out.append(('component-order', real_order, model_order))
            return out
        # stored first, then derived in dependency order; an attribute whose input already failed is
        # not reported again (one defect, one clause)
        failed = set()
        names = [n for n in ('x', 'y') if n in w.order] + [n for n in sorted(self.defs) if n in w.order]
        for name in names:
            kind = self.defs[name][0] if name in self.defs else 'stored'
            if name in self.defs and any(i in failed for i in self.defs[name][1]):
                failed.add(name)
                continue
            exp = self.model_value(w, name)
            for v in (None, self.VIEW):
                try:
                    got = w.data[w.cids[name]] if v is None else w.data[w.cids[name], v]
                except Exception as e:
                    out.append(('value-%s' % kind, '%s for %s' % (type(e).__name__, w.labels[name]), 'a value', repr(e)))
                    failed.add(name)
                    break
                if not same(got, exp if v is None else exp[v]):
                    out.append(('value-%s' % kind, describe(got), describe(exp if v is None else exp[v]),
                                w.labels[name]))
                    failed.add(name)
                    break
        return out

    def canon(self, w):
        comps = []
        for c in w.data.components:
            comp = w.data.get_component(c)
            link = getattr(comp, 'link', None)
            entry = [c.label, type(comp).__name__]
            if link is not None:
                entry.append(type(link).__name__)
                parsed = getattr(link, '_parsed', None)
                if parsed is None:
                    entry.append([f.label for f in link.get_from_ids()])
                    entry.append(str(link))
                else:       # reference_list is built from a set: its order is not observable
                    entry.append(sorted(f.label for f in link.get_from_ids()))
                    entry.append(sorted(r.label for r in parsed._references.values()))
            comps.append(entry)
        return dict(comps=comps, order=w.order, uids=w.uids,
                    pix=[c.label for c in w.data.pixel_component_ids])


def h_tiers(tier):
    if tier == 'quick':
        return [('plain', Scenario('plain', uid_budget=2), 5), ('parsed', Scenario('parsed', uid_budget=2), 5),
                ('repeat', Scenario('repeat', uid_budget=3), 5),
                ('shared', Scenario('shared', uid_budget=0, reorders=()), 6),
                ('samelabel', Scenario('samelabel', uid_budget=1, reorders=()), 5)]
    return [('plain', Scenario('plain', uid_budget=2), 7), ('parsed', Scenario('parsed', uid_budget=2), 7),
            ('repeat', Scenario('repeat', uid_budget=3), 7),
            ('shared', Scenario('shared', uid_budget=0, reorders=('rev',)), 8),
            ('samelabel', Scenario('samelabel', uid_budget=2, reorders=('rev',)), 7)]


def _scn_for(label):
    for tier in ('thorough', 'quick'):
        for l, scn, d in h_tiers(tier):
            if l == label:
                return scn
    return Scenario('plain')


# ----------------------------------------------------------------------------- driver
RULE = ('Mode I: one evaluation = data[derived, view] for one derived attribute (expression tree / user function / '
        'parsed text) on a fresh Data, compared with numpy on the full input arrays then [view]; non-trivial = the '
        'view changes the shape.  Mode H part: every add/remove/update_id/reorder history to the depth bound, '
        'states de-duplicated on a canonical form of the real component table + links')


def run(tier):
    t0 = time.time()
    pal = core.seed() % 3
    cases = mode_i_cases(tier)
    fam_sizes = {}
    for c in cases:
        fam_sizes[c['fam']] = fam_sizes.get(c['fam'], 0) + 1
    total = core.run_shards(work, [(pal, s) for s in core.split(core.rotate(cases), core.jobs() * 8)])
    cov = dict(product_dimensions=dict(derived_attributes_per_family=fam_sizes, shapes=shapes_for(tier),
                                       views_per_shape={str(s): len(view_alphabet(tuple(s))) for s in shapes_for(tier)},
                                       operators=list(OPS), constants=CONSTS, palette=pal),
               history_part=dict(states=0, transitions=0, traces_validated_against_impl=0, runs=[]))
    hp = cov['history_part']
    for label, scn, depth in h_tiers(tier):
        ex = hist.Explorer(scn, depth, PROP, label=label)
        res = ex.run()
        total.merge(res)
        c = ex.coverage()
        for k in ('states', 'transitions', 'traces_validated_against_impl'):
            hp[k] += c[k]
        c['scenario'] = label
        hp['runs'].append(c)
    cov['states'] = hp['states']
    cov['transitions'] = hp['transitions']
    cov['traces_validated_against_impl'] = hp['traces_validated_against_impl']
    return core.finish(
        PROP, tier, total, 'exploration', RULE, t0, coverage=cov, confirm=confirm,
        assumptions=[
            'views are the types ComponentLink.compute documents (slice or tuple): None, bare slices, tuples of '
            'slices/ints, tuples of index arrays, a tuple holding a boolean mask, Ellipsis-led tuples; bare ndarray '
            'views are excluded (C04 covers them)',
            'a case is skipped when an input attribute itself violates data[a, view] == data[a][view] (C04/C15) or '
            'when numpy raises for the expression (e.g. integer ** negative integer); both are counted',
            'user functions are elementwise and return arrays of the size of their inputs (possibly ravelled) or a '
            'python scalar for 0-d inputs, as ComponentLink documents; parsed expressions are elementwise',
            'world coordinates are an independent-axes affine transform; values compared to 1e-12 relative',
            'history part: derived d1..d4 with fixed definitions (binary / function / parsed / nested binary) on a '
            '(2,3) Data; update_id uses a fresh ComponentID; at most 2 update_id per history; depth 5 (quick) / 7 (thorough); '
            'reorder = reverse or rotate; pixel attributes are never removed or renamed',
        ])


def confirm(v):
    case = v['case']
    if case.get('kind') == 'history':
        viol = hist.replay(_scn_for(case.get('scenario')), case, verbose=False)
        return any(x[0] == v['clause'] for x in viol)
    core.bind()
    res = core.Result()
    run_case(res, {k: x for k, x in case.items() if k not in ('view', 'pal')}, case['pal'],
             views=[dec_view(case['view'])])
    return any(x['key'] == v['key'] for x in res.violations)


def replay(doc):
    case = doc['case']
    if case.get('kind') == 'history':
        viol = hist.replay(_scn_for(case.get('scenario')), case)
        for x in viol:
            print('  violated:', core._clip(list(x)))
        return any(x[0] == doc['clause'] for x in viol)
    core.bind()
    res = core.Result()
    print('  case', core._clip(case))
    run_case(res, {k: x for k, x in case.items() if k not in ('view', 'pal')}, case['pal'],
             views=[dec_view(case['view'])])
    for x in res.violations:
        print('  observed', core._clip(x['observed']))
        print('  expected', core._clip(x['expected']))
        print('  key     ', x['key'])
    return any(x['key'] == doc['key'] for x in res.violations)
