"""C08 - region containment is geometrically exact and equivariant under move / rotate / copy.

Mode I (bounded-exhaustive input enumeration).  Every region class x parameter lattice (rotation angles at
and next to multiples of pi/2, thin and degenerate shapes, open / closed / concave polygons) is built from a
JSON descriptor, evaluated with the REAL glue code on a lattice of points plus points straddling every edge
and arc, and compared with the analytic oracles of mc/geom.py.  Points closer than band = 1e-6 * scale to
the boundary (analytic distance, independent of glue) are never compared.

families   contains   roi.contains == definition
           shapes     same answers and output shape for 2-d C/F order, 3-d, strided, reversed, zero-stride
                      broadcast views, scalars, empty arrays
           move       after move_to(c'): center() == c' and contains(p + (c' - c)) == before.contains(p)
           rotate     after rotate_to / rotate_by sequences the set is the original rotated about the centre
           topoly     PolygonalROI(*roi.to_polygon()) agrees outside the discretisation sliver
           clone      copy() and save/restore contain exactly the same points (all points, incl. the band)
           chunk      Projected3dROI.contains3d and RoiSubsetState(Nd).to_mask with the module-global
                      iterate_chunks of glue.core.roi / glue.core.subset rebound to every n_max 1..n+1
           cat        CategoricalROI.contains == set membership for every label sequence
"""
import math
import time
import itertools

import numpy as np

from mc import core, geom

PROP = 'C08'
PI = math.pi

RULE = ('one evaluation = one (region descriptor, transformation / array-shape variant / chunk size) executed on '
        'the real code and compared point-wise with the analytic oracle on ~300-1500 points; non-trivial = the '
        'compared (off-band) points contain both members and non-members of the region and, for move / rotate / '
        'chunk, the displacement is non-zero / the rotation is not a multiple of 2pi / more than one chunk was '
        'produced')

ASSUMPTIONS = [
    'points are finite float64 ndarrays; x and y always have the SAME shape (zero-stride broadcast views of a '
    'common shape included); mutually-broadcastable x/y of different shapes and python lists are excluded '
    '(rotated rectangle / ellipse / polygon raise for them, RangeROI returns the un-broadcast shape)',
    'band = 1e-6 * max(1, largest |coordinate| of the region bounding box); for to_polygon() of curved regions '
    'the band additionally covers the sliver between the curve and its inscribed 99-gon',
    'polygons are simple (not self-intersecting); degenerate ones (collinear, 1-2 vertices) contain nothing',
    'rotation is checked for the classes that implement rotate_to (rectangle, ellipse, polygon, Projected3d '
    'forwarding); for polygons the pivot is the centre reported by center() before the step (or the explicit '
    'center argument)',
    'perspective projections keep the homogeneous w strictly positive',
    'a violating rotate step ends its sequence (later steps of that sequence are not judged)',
]


# --------------------------------------------------------------------------------------------------
# alphabets
# --------------------------------------------------------------------------------------------------

def thetas(tier):
    base = [0.0, PI / 2, -PI / 2, PI, 3 * PI / 2, 2 * PI, PI / 4, 0.3]
    near = [k * PI / 2 + s * e for k in (0, 1, 2) for e in (1e-10, 1e-6) for s in (1, -1)]
    # a little further from the quarter turns: inside any relative tolerance window of order 1e-5 * |theta|
    near += [k * PI / 2 + s * e for k in (1, 2, 4) for e in (1e-5, 6e-5) for s in (1, -1)]
    if tier == 'thorough':
        near += [k * PI / 2 + s * e for k in (-2, -1, 3, 40) for e in (1e-5, 6e-5, 3e-4) for s in (1, -1)]
        base += [-PI, 3 * PI, -3 * PI / 2, 5 * PI / 2, 4 * PI, -2 * PI, PI / 3, -PI / 4, 3 * PI / 4, 1.0, 2.5,
                 -0.7, 5 * PI / 6, 7.0, PI / 12]
        near += [k * PI / 2 + s * e for k in (-2, -1, 3, 4) for e in (1e-10, 1e-6) for s in (1, -1)]
        near += [k * PI / 2 + s * 1e-8 for k in (0, 1, 2) for s in (1, -1)]
    return base + near


CENTRE_PALETTES = [[3.5, -2.25], [-1.75, 4.5], [6.25, 0.75]]
TARGET_PALETTES = [[-3.25, 7.5], [2.75, -5.5], [-8.5, -1.25]]


def centres(tier):
    c = [[0.0, 0.0], CENTRE_PALETTES[core.seed() % 3]]
    if tier == 'thorough':
        c.append([-120.5, 40.25])
    return c


def targets(tier):
    t = [TARGET_PALETTES[core.seed() % 3]]
    if tier == 'thorough':
        t += [[0.0, 0.0], [1000.5, -2000.25]]
    return t


POLYS = {
    'tri': ([0, 2, 0.5], [0, 0.5, 1.5]),
    'tri_cw': ([0.5, 2, 0], [1.5, 0.5, 0]),
    'tri_closed': ([0, 2, 0.5, 0], [0, 0.5, 1.5, 0]),
    'L': ([0, 2, 2, 1, 1, 0], [0, 0, 1, 1, 2, 2]),
    'L_closed': ([0, 2, 2, 1, 1, 0, 0], [0, 0, 1, 1, 2, 2, 0]),
    'sliver': ([0, 4, 4], [0, 0, 0.01]),
    'collinear': ([0, 1, 2], [0, 0.5, 1]),
    'line2': ([0, 2], [0, 1]),
    'square': ([0, 1, 1, 0], [0, 0, 1, 1]),
    'star': ([0, 1, 2, 1.5, 2, 1, 0, 0.5], [0, 0.5, 0, 1, 2, 1.5, 2, 1]),
    'comb': ([0, 5, 5, 4, 4, 3, 3, 2, 2, 1, 1, 0], [0, 0, 3, 3, 1, 1, 3, 3, 1, 1, 3, 3]),
    'dupvertex': ([0, 2, 2, 0.5], [0, 0.5, 0.5, 1.5]),
}
POLYS_T = {
    'tri_obtuse': ([0, 6, 5], [0, 0, 0.5]),
    'star_closed': ([0, 1, 2, 1.5, 2, 1, 0, 0.5, 0], [0, 0.5, 0, 1, 2, 1.5, 2, 1, 0]),
    'point1': ([1], [1]),
    'zigzag': ([0, 1, 2, 3, 4, 4, 3, 2, 1, 0], [0, 1, 0, 1, 0, 2, 3, 2, 3, 2]),
    'tiny': ([0, 2e-3, 5e-4], [0, 5e-4, 1.5e-3]),
}


def rect_specs(tier):
    ext = [[2, 1], [1, 3], [4, 0.02], [1.5, 1.5], [40, 1]] + ([[0.004, 0.001], [7, 2.5], [0, 1]] if tier == 'thorough' else [])
    for (cx, cy), (w, h), t in itertools.product(centres(tier), ext, thetas(tier)):
        yield dict(kind='rect', p=[cx - w / 2, cx + w / 2, cy - h / 2, cy + h / 2, t])


def ellipse_specs(tier):
    ext = [[2, 1], [0.5, 1.5], [2, 0.01], [1.25, 1.25]] + ([[0.004, 0.001], [7, 2.5]] if tier == 'thorough' else [])
    for (cx, cy), (a, b), t in itertools.product(centres(tier), ext, thetas(tier)):
        yield dict(kind='ellipse', p=[cx, cy, a, b, t])


def circle_specs(tier):
    for (cx, cy), r in itertools.product(centres(tier), [1.0, 0.05, 7.5] + ([1e-3, 250.0, 0.0] if tier == 'thorough' else [])):
        yield dict(kind='circle', p=[cx, cy, r])


def annulus_specs(tier):
    rr = [[0.5, 1.0], [0.99, 1.0], [1.0, 4.0]] + ([[1e-3, 5.0], [40.0, 41.0]] if tier == 'thorough' else [])
    for (cx, cy), (r0, r1) in itertools.product(centres(tier), rr):
        yield dict(kind='annulus', p=[cx, cy, r0, r1])


def poly_specs(tier):
    names = list(POLYS) + (list(POLYS_T) if tier == 'thorough' else [])
    allp = dict(POLYS)
    allp.update(POLYS_T)
    for i, name in enumerate(names):
        vx, vy = allp[name]
        for j, (ox, oy) in enumerate(centres(tier)):
            yield dict(kind='poly', name=name, vx=[v + ox for v in vx], vy=[v + oy for v in vy],
                       arr=bool((i + j) % 2))


def range_specs(tier):
    lim = [[0.25, 1.75], [-3.5, -3.25], [-1.0, 1000.0]] + ([[-1e-3, 1e-3], [5e5, 5e5 + 1]] if tier == 'thorough' else [])
    for o, (lo, hi) in itertools.product('xy', lim):
        yield dict(kind=o + 'range', p=[lo, hi])
    for o in 'xy':
        yield dict(kind=o + 'range', p=lim[0], generic=True)       # RangeROI(orientation, ...) itself


def _rotm(ax, a):
    c, s = math.cos(a), math.sin(a)
    m = np.eye(4)
    i, j = [(1, 2), (0, 2), (0, 1)][ax]
    m[i, i], m[i, j], m[j, i], m[j, j] = c, -s, s, c
    return m


def matrices():
    ortho = np.array([[1.5, 0, 0, 0.25], [0, 0.75, 0, -0.5], [0, 0, 1, 0], [0, 0, 0, 1.0]])
    rotated = _rotm(1, 0.6) @ _rotm(0, -0.4)
    rotated[:3, 3] = [0.5, -0.25, 0.125]
    persp = np.eye(4)
    persp[3, 2] = 0.15
    # the same parallel projection written with another homogeneous scale: last row (0, 0, 0, w) with w != 1
    # (screen coordinates are x/w, y/w), including a negative one
    return dict(ortho=ortho.tolist(), rotated=rotated.tolist(), persp=(persp @ rotated).tolist(),
                ortho_w2=(2.0 * ortho).tolist(), rotated_wneg=(-0.5 * rotated).tolist())


def proj_inner(tier):
    c = centres(tier)[1]
    inner = [dict(kind='rect', p=[-1, 1, -0.5, 0.5, 0.0]),
             dict(kind='rect', p=[c[0] - 1, c[0] + 1, c[1] - 0.5, c[1] + 0.5, 0.3]),
             dict(kind='circle', p=[0.0, 0.0, 1.0]),
             dict(kind='ellipse', p=[c[0], c[1], 2, 1, PI / 4]),
             dict(kind='annulus', p=[0.0, 0.0, 0.5, 1.0]),
             dict(kind='poly', name='tri', vx=POLYS['tri'][0], vy=POLYS['tri'][1], arr=False),
             dict(kind='poly', name='L', vx=[v + c[0] for v in POLYS['L'][0]], vy=[v + c[1] for v in POLYS['L'][1]], arr=True),
             dict(kind='xrange', p=[0.25, 1.75])]
    if tier == 'thorough':
        inner += [dict(kind='rect', p=[-1, 1, -0.5, 0.5, PI / 2]), dict(kind='ellipse', p=[0.0, 0.0, 2, 0.01, PI]),
                  dict(kind='poly', name='comb', vx=POLYS['comb'][0], vy=POLYS['comb'][1], arr=False),
                  dict(kind='yrange', p=[-3.5, -3.25])]
    return inner


def proj_specs(tier):
    for m, inner in itertools.product(matrices(), proj_inner(tier)):
        yield dict(kind='proj', m=m, roi=inner)


def all_specs(tier):
    return (list(rect_specs(tier)) + list(ellipse_specs(tier)) + list(circle_specs(tier)) +
            list(annulus_specs(tier)) + list(poly_specs(tier)) + list(range_specs(tier)) + list(proj_specs(tier)))


CAT_ALPHABETS = {'str': ['a', 'bb', 'c', 'd'], 'num': [1.0, 2.5, -1.0, 4.0], 'int': [3, 1, 2, 7]}
CAT_OUTSIDE = {'str': ['0', 'e', 'b'], 'num': [-5.0, 9.0, 2.0], 'int': [0, 9, 4]}


def all_cases(tier):
    cases = []
    th = thetas(tier)
    n = 25
    for s in all_specs(tier):
        for m in (n,) if tier == 'quick' else (n, 37):       # thorough adds a finer lattice
            cases.append(dict(f='contains', roi=s, n=m))
            cases.append(dict(f='shapes', roi=s, n=m))
            cases.append(dict(f='topoly', roi=s, n=m))
        cases.append(dict(f='clone', roi=s, how='copy', n=n))
        cases.append(dict(f='clone', roi=s, how='restore', n=n))
        base = s['roi'] if s['kind'] == 'proj' else s
        for t in targets(tier):
            if s['kind'] == 'proj' and base['kind'].endswith('range'):
                continue     # Projected3dROI.move_to(x, y) cannot drive the one-argument RangeROI.move_to
            cases.append(dict(f='move', roi=s, to=t, n=n))
        if base['kind'] in ('rect', 'ellipse'):
            # rotate_to only stores the angle: one step to every target angle, plus rotate_by
            only = s['kind'] != 'proj' or base['p'][4] in (0.0, 0.3, PI / 4)
            if only:
                for t in th:
                    cases.append(dict(f='rotate', roi=s, steps=[['to', t]], n=n))
                for t in th[:8]:
                    cases.append(dict(f='rotate', roi=s, steps=[['by', t], ['by', t]], n=n))
    # polygons: every ordered pair of angles (two successive rotate_to), rotate_by and explicit pivots
    for s in list(poly_specs(tier)) + [p for p in proj_specs(tier) if p['roi']['kind'] == 'poly' and p['m'] == 'rotated']:
        for t1 in th:
            for t2 in th:
                cases.append(dict(f='rotate', roi=s, steps=[['to', t1], ['to', t2]], n=n))
        if s['kind'] == 'poly':
            for t in th:
                cases.append(dict(f='rotate', roi=s, steps=[['by', t], ['by', t]], n=n))
                cases.append(dict(f='rotate', roi=s, steps=[['to', t, [0.5, -1.25]]], n=n))
            if tier == 'thorough':
                for t1, t2, t3 in itertools.product(th[:8], repeat=3):
                    cases.append(dict(f='rotate', roi=s, steps=[['to', t1], ['to', t2], ['to', t3]], n=n))
    # chunking
    shapes = [[24], [4, 6], [2, 3, 4]] + ([[30], [5, 6], [3, 2, 5]] if tier == 'thorough' else [])
    for s in proj_specs(tier):
        for shp in shapes:
            cases.append(dict(f='chunk', target='contains3d', roi=s, shape=shp))
            cases.append(dict(f='chunk', target='state3d', roi=s, shape=shp, pre=False))
            cases.append(dict(f='chunk', target='state3d', roi=s, shape=shp, pre=True))
    for s in proj_inner(tier):
        for shp in shapes:
            cases.append(dict(f='chunk', target='state2d', roi=s, shape=shp, pre=True))
            cases.append(dict(f='chunk', target='state2d', roi=s, shape=shp, pre=False))
        for shp in [[4, 6], [2, 4, 6]] + ([[3, 2, 5]] if tier == 'thorough' else []):
            for ax in itertools.permutations(range(len(shp)), 2):
                for pre in (False, True):
                    cases.append(dict(f='chunk', target='pixel', roi=s, shape=shp, axes=list(ax), pre=pre))
    # categorical
    L = 3 if tier == 'quick' else 4
    for name, alpha in CAT_ALPHABETS.items():
        for r in range(len(alpha) + 1):
            for sub in itertools.combinations(range(len(alpha)), r):
                for extra in (False, True):
                    cases.append(dict(f='cat', alphabet=name, members=list(sub), extra=extra, length=L))
    return cases


# --------------------------------------------------------------------------------------------------
# construction of the real region and of the oracle from a descriptor
# --------------------------------------------------------------------------------------------------

def build(spec):
    from glue.core import roi as R
    k = spec['kind']
    if k == 'rect':
        x0, x1, y0, y1, t = spec['p']
        return R.RectangularROI(x0, x1, y0, y1, theta=t), geom.Box((x0 + x1) / 2, (y0 + y1) / 2, x1 - x0, y1 - y0, t)
    if k == 'ellipse':
        cx, cy, a, b, t = spec['p']
        return R.EllipticalROI(cx, cy, a, b, theta=t), geom.Oval(cx, cy, a, b, t)
    if k == 'circle':
        cx, cy, r = spec['p']
        return R.CircularROI(cx, cy, r), geom.Disc(cx, cy, r)
    if k == 'annulus':
        cx, cy, r0, r1 = spec['p']
        return R.CircularAnnulusROI(float(cx), float(cy), float(r0), float(r1)), geom.Ring(cx, cy, r0, r1)
    if k == 'poly':
        vx, vy = spec['vx'], spec['vy']
        if spec.get('arr'):
            return R.PolygonalROI(np.array(vx, dtype=float), np.array(vy, dtype=float)), geom.Poly(vx, vy)
        return R.PolygonalROI(list(vx), list(vy)), geom.Poly(vx, vy)
    if k in ('xrange', 'yrange'):
        lo, hi = spec['p']
        if spec.get('generic'):
            return R.RangeROI(k[0], lo, hi), geom.Strip(k[0], lo, hi)
        return (R.XRangeROI if k == 'xrange' else R.YRangeROI)(lo, hi), geom.Strip(k[0], lo, hi)
    if k == 'proj':
        r2, o2 = build(spec['roi'])
        m = matrices()[spec['m']]
        return R.Projected3dROI(r2, np.array(m)), geom.Projected(o2, m)
    raise ValueError(k)


def kind_of(spec):
    return 'proj-' + spec['roi']['kind'] if spec['kind'] == 'proj' else spec['kind']


def angle_class(t):
    k = int(round(t / (PI / 2)))
    r = abs(t - k * PI / 2)
    if r < 1e-4:
        name = ['2pi*n', 'pi/2*odd', 'pi*odd', 'pi/2*odd'][k % 4]
        return name if r < 1e-8 else 'near-' + name
    return 'general'


def spec_theta(spec):
    base = spec['roi'] if spec['kind'] == 'proj' else spec
    return base['p'][4] if base['kind'] in ('rect', 'ellipse') else None


def band_of(shape):
    s = shape.s if isinstance(shape, geom.Projected) else shape
    return 1e-6 * s.scale()


DEPTHS = np.array([-1.0, 0.5, 2.0])


class Probe(object):
    """Test points for an oracle shape, and evaluation of real region / oracle on them."""

    def __init__(self, oracle, n):
        self.o = oracle
        self.is3 = isinstance(oracle, geom.Projected)
        self.s2 = oracle.s if self.is3 else oracle
        self.gx, self.gy, self.px, self.py = geom.points_for(self.s2, n)
        self.band = band_of(oracle)
        if self.is3:
            d = DEPTHS[np.arange(len(self.px)) % 3]
            self.w = oracle.unproject(self.px, self.py, d)
            self.exp = oracle.inside3(*self.w)
            self.dist = oracle.bdist3(*self.w)
        else:
            self.exp = self.s2.inside(self.px, self.py)
            self.dist = self.s2.bdist(self.px, self.py)
        self.ok = self.dist > self.band

    def real(self, roi, dx=0.0, dy=0.0):
        if self.is3:
            if dx or dy:
                w = self.o.unproject(self.px + dx, self.py + dy, DEPTHS[np.arange(len(self.px)) % 3])
            else:
                w = self.w
            return roi.contains3d(*w)
        return roi.contains(self.px + dx, self.py + dy)

    def nontrivial(self):
        e = self.exp[self.ok]
        return bool(e.any() and not e.all())

    def mismatch(self, got, ok=None):
        got = np.asarray(got)
        ok = self.ok if ok is None else ok
        if got.shape != self.exp.shape:
            return dict(shape=list(got.shape)), dict(shape=list(self.exp.shape))
        bad = ok & (got.astype(bool) != self.exp)
        if not bad.any():
            return None
        i = int(np.flatnonzero(bad)[0])
        return (dict(point=[float(self.px[i]), float(self.py[i])], contains=bool(got[i]), n_bad=int(bad.sum()),
                     n_compared=int(ok.sum())),
                dict(contains=bool(self.exp[i]), boundary_distance=float(self.dist[i]), band=self.band))


def _close(a, b, tol):
    return abs(float(a) - float(b)) <= tol


# --------------------------------------------------------------------------------------------------
# families
# --------------------------------------------------------------------------------------------------

def f_contains(res, c):
    roi, o = build(c['roi'])
    pr = Probe(o, c['n'])
    got = pr.real(roi)
    res.case(sig=('contains', core.short_hash(c['roi'])) if pr.nontrivial() else None,
             sample=dict(family='contains', roi=c['roi'], points=int(len(pr.px)), compared=int(pr.ok.sum()),
                         inside=int(pr.exp[pr.ok].sum())))
    mm = pr.mismatch(got)
    if mm:
        res.violation('contains', 'contains|%s|theta=%s' % (kind_of(c['roi']), _tc(c['roi'])), c, mm[0], mm[1])
    if pr.is3:
        # the 2-d entry point forwards to the inner region
        got2 = roi.contains(pr.px, pr.py)
        bad = (pr.s2.bdist(pr.px, pr.py) > pr.band) & (np.asarray(got2, bool) != pr.s2.inside(pr.px, pr.py))
        if bad.any():
            res.violation('contains', 'contains|%s|forward2d' % kind_of(c['roi']), c, int(bad.sum()), 0)


def _tc(spec):
    t = spec_theta(spec)
    return 'n/a' if t is None else angle_class(t)


def _variants(pr):
    """(name, arrays, index into the flat point list or None for the lattice)"""
    n = len(pr.px)
    coords = pr.w if pr.is3 else (pr.px, pr.py)
    k = (n // 12) * 12
    idx = np.arange(k)
    out = [('c2d', [a[:k].reshape(12, k // 12) for a in coords], idx),
           ('f2d', [np.asfortranarray(a[:k].reshape(12, k // 12)) for a in coords], idx),
           ('c3d', [a[:k].reshape(2, 6, k // 12) for a in coords], idx),
           ('reversed', [a[::-1] for a in coords], np.arange(n)[::-1]),
           ('transposed', [a[:k].reshape(12, k // 12).T for a in coords], idx.reshape(12, k // 12).T.ravel()),
           ('empty', [a[:0] for a in coords], np.arange(0))]
    strided = []
    for a in coords:
        big = np.full(2 * n, 1e3)
        big[::2] = a
        strided.append(big[::2])
    out.append(('strided', strided, np.arange(n)))
    return out


def f_shapes(res, c):
    roi, o = build(c['roi'])
    pr = Probe(o, c['n'])
    kind = kind_of(c['roi'])
    call = roi.contains3d if pr.is3 else roi.contains
    for name, arrs, idx in _variants(pr):
        res.case(sig=('shapes', core.short_hash(c['roi']), name) if pr.nontrivial() and name != 'empty' else None)
        try:
            got = np.asarray(call(*arrs))
        except Exception as e:
            res.violation('shapes', 'shapes|%s|%s|raises-%s' % (kind, name, type(e).__name__), c, repr(e), 'mask')
            continue
        if got.shape != arrs[0].shape:
            res.violation('shapes', 'shapes|%s|%s|output-shape' % (kind, name), c, list(got.shape), list(arrs[0].shape))
            continue
        bad = pr.ok[idx] & (got.ravel().astype(bool) != pr.exp[idx])
        if bad.any():
            i = int(idx[np.flatnonzero(bad)[0]])
            res.violation('shapes', 'shapes|%s|%s|values' % (kind, name), c,
                          dict(point=[float(pr.px[i]), float(pr.py[i])], n_bad=int(bad.sum())),
                          dict(contains=bool(pr.exp[i])))
    # zero-stride broadcast views of the lattice
    gx, gy = pr.gx, pr.gy
    if pr.is3:
        wx, wy, wz = [np.linspace(a.min(), a.max(), m) for a, m in zip(pr.w, (5, 6, 4))]
        shp = (4, 6, 5)
        arrs = [np.broadcast_to(wx, shp), np.broadcast_to(wy[:, None], shp), np.broadcast_to(wz[:, None, None], shp)]
        exp = o.inside3(*arrs)
        ok = o.bdist3(*arrs) > pr.band
    else:
        shp = (len(gy), len(gx))
        arrs = [np.broadcast_to(gx, shp), np.broadcast_to(gy[:, None], shp)]
        exp = o.inside(*arrs)
        ok = o.bdist(*arrs) > pr.band
    res.case(sig=('shapes', core.short_hash(c['roi']), 'bcast') if exp[ok].any() and not exp[ok].all() else None)
    try:
        got = np.asarray(call(*arrs))
        if got.shape != shp:
            res.violation('shapes', 'shapes|%s|bcast|output-shape' % kind, c, list(got.shape), list(shp))
        elif (ok & (got.astype(bool) != exp)).any():
            res.violation('shapes', 'shapes|%s|bcast|values' % kind, c, int((ok & (got != exp)).sum()), 0)
    except Exception as e:
        res.violation('shapes', 'shapes|%s|bcast|raises-%s' % (kind, type(e).__name__), c, repr(e), 'mask')
    # scalars (python floats and 0-d arrays)
    if not pr.is3:
        pick = np.flatnonzero(pr.ok)
        pick = pick[:: max(1, len(pick) // 12)][:12]
        for i in pick:
            res.case()
            for mk in (float, np.array):
                try:
                    g = roi.contains(mk(pr.px[i]), mk(pr.py[i]))
                    good = np.ndim(g) == 0 and bool(g) == bool(pr.exp[i])
                except Exception as e:
                    g, good = repr(e), False
                if not good:
                    res.violation('shapes', 'shapes|%s|scalar' % kind, c,
                                  dict(point=[float(pr.px[i]), float(pr.py[i])], got=core.jdefault(g)),
                                  dict(contains=bool(pr.exp[i])))


def _centre_tuple(c):
    return tuple(float(v) for v in np.atleast_1d(np.asarray(c, dtype=float)))


def f_move(res, c):
    roi, o = build(c['roi'])
    kind = kind_of(c['roi'])
    s2 = o.s if isinstance(o, geom.Projected) else o
    is_range = isinstance(s2, geom.Strip)
    c0 = _centre_tuple(roi.center())
    to = [c['to'][0]] if is_range else list(c['to'])
    tol = 1e-9 * max(1.0, s2.scale(), max(abs(v) for v in to))
    # reported centre == geometric centre where that is analytic
    oc = s2.centre()
    if oc is not None and not all(_close(a, b, tol) for a, b in zip(c0, _centre_tuple(oc))):
        res.violation('center', 'center|%s|theta=%s' % (kind, _tc(c['roi'])), c, list(c0), list(_centre_tuple(oc)))
    pr = Probe(o, c['n'])                       # points and expectation BEFORE the move
    roi.move_to(*to)
    c1 = _centre_tuple(roi.center())
    d = [b - a for a, b in zip(c0, to)]
    res.case(sig=('move', core.short_hash(c['roi']), tuple(to)) if pr.nontrivial() and any(d) else None,
             sample=dict(family='move', roi=c['roi'], to=to, centre_before=list(c0)))
    if not all(_close(a, b, tol) for a, b in zip(c1, to)):
        res.violation('move-center', 'move|%s|reported-centre' % kind, c, list(c1), to)
        return
    if is_range:
        dx, dy = (d[0], 0.0) if s2.ori == 'x' else (0.0, d[0])
    else:
        dx, dy = d
    # band scaled to the magnitude of the moved coordinates
    band = 1e-6 * max(s2.scale(), s2.moved(*( [d[0]] if is_range else d)).scale())
    ok = pr.dist > band
    mm = pr.mismatch(pr.real(roi, dx, dy), ok)
    if mm:
        res.violation('move', 'move|%s|theta=%s' % (kind, _tc(c['roi'])), c, mm[0], mm[1])


def f_rotate(res, c):
    roi, o = build(c['roi'])
    kind = kind_of(c['roi'])
    proj = isinstance(o, geom.Projected)
    s2 = o.s if proj else o
    theta = float(getattr(roi.roi_2d if proj else roi, 'theta', 0.0))
    for k, step in enumerate(c['steps']):
        how, val = step[0], step[1]
        pivot = step[2] if len(step) > 2 else None
        target = val if how == 'to' else theta + val
        dt = target - theta
        c0 = _centre_tuple(roi.center()) if pivot is None else tuple(pivot)
        kw = {} if pivot is None else dict(center=tuple(pivot))
        if how == 'to':
            roi.rotate_to(val, **kw)
        else:
            roi.rotate_by(val, **kw)
        s2 = s2.rotated(dt, c0[0], c0[1])
        theta = target
        shape = geom.Projected(s2, o.m) if proj else s2
        pr = Probe(shape, c['n'])
        turn = abs(dt - 2 * PI * round(dt / (2 * PI))) > 1e-8
        res.case(sig=('rotate', core.short_hash(c['roi']), k, repr(c['steps'][:k + 1])) if pr.nontrivial() and turn else None,
                 sample=dict(family='rotate', roi=c['roi'], steps=c['steps']))
        inner = roi.roi_2d if proj else roi
        rep = float(getattr(inner, 'theta', float('nan')))
        if not _close(rep, target, 1e-12 * max(1.0, abs(target))):
            res.violation('rotate-theta', 'rotate|%s|reported-theta|%s' % (kind, how), c, rep, target,
                          'theta reported after step %d (%s %r)' % (k, how, val))
            return
        mm = pr.mismatch(pr.real(roi))
        if mm:
            res.violation('rotate', 'rotate|%s|dtheta=%s' % (kind, angle_class(dt)), c,
                          dict(mm[0], step=k, dtheta=dt, theta_reported=rep), mm[1],
                          'expected set = set before step %d rotated by dtheta about %s' % (k, list(c0)))
            if k + 1 < len(c['steps']):
                res.count('rotate_sequences_cut_at_violating_step')
            return
        if pivot is None:
            c1 = _centre_tuple(roi.center())
            tol = 1e-9 * max(1.0, s2.scale())
            if not all(_close(a, b, tol) for a, b in zip(c0, c1)):
                res.violation('rotate-center', 'rotate|%s|centre-moved' % kind, c, list(c1), list(c0))
                return


def f_topoly(res, c):
    from glue.core.roi import PolygonalROI
    roi, o = build(c['roi'])
    kind = kind_of(c['roi'])
    s2 = o.s if isinstance(o, geom.Projected) else o
    pr = Probe(s2, c['n'])
    vx, vy = roi.to_polygon()
    got = PolygonalROI(vx, vy).contains(pr.px, pr.py)
    ok = ~s2.poly_exclude(pr.px, pr.py, pr.band)
    e = pr.exp[ok]
    res.case(sig=('topoly', core.short_hash(c['roi'])) if e.any() and not e.all() else None,
             sample=dict(family='topoly', roi=c['roi'], vertices=int(len(vx))))
    mm = pr.mismatch(got, ok)
    if mm:
        res.violation('to_polygon', 'topoly|%s|theta=%s' % (kind, _tc(c['roi'])), c, mm[0], mm[1])


def clone_roi(roi):
    from glue.core.state import GlueSerializer, GlueUnSerializer
    gs = GlueSerializer(roi)
    oid = gs.id(roi)
    return GlueUnSerializer.loads(gs.dumps()).object(oid)


def f_clone(res, c):
    roi, o = build(c['roi'])
    kind = kind_of(c['roi'])
    pr = Probe(o, c['n'])
    before = np.asarray(pr.real(roi), bool)
    try:
        twin = roi.copy() if c['how'] == 'copy' else clone_roi(roi)
        got = np.asarray(pr.real(twin), bool)
    except Exception as e:
        res.case()
        res.violation('clone', 'clone|%s|%s|raises-%s' % (kind, c['how'], type(e).__name__), c, repr(e), 'a region')
        return
    res.case(sig=('clone', core.short_hash(c['roi']), c['how']) if before.any() and not before.all() else None,
             sample=dict(family='clone', how=c['how'], roi=c['roi']))
    if type(twin) is not type(roi):
        res.violation('clone', 'clone|%s|%s|type' % (kind, c['how']), c, type(twin).__name__, type(roi).__name__)
    elif got.shape != before.shape or (got != before).any():
        i = int(np.flatnonzero(got != before)[0])
        res.violation('clone', 'clone|%s|%s|theta=%s' % (kind, c['how'], _tc(c['roi'])), c,
                      dict(point=[float(pr.px[i]), float(pr.py[i])], clone=bool(got[i]), n_bad=int((got != before).sum())),
                      dict(original=bool(before[i])))
    after = np.asarray(pr.real(roi), bool)
    if (after != before).any():
        res.violation('clone', 'clone|%s|%s|original-changed' % (kind, c['how']), c, int((after != before).sum()), 0)


class ChunkPatch(object):
    """Rebind the module-global iterate_chunks of glue.core.roi and glue.core.subset (harness-level
    interposition, glue is not edited) so that the literal n_max=1000000 becomes `n`."""

    def __init__(self, n):
        self.n = n
        self.calls = 0
        self.chunks = 0

    def __enter__(self):
        import glue.core.roi as R
        import glue.core.subset as S
        from glue.utils.array import iterate_chunks as real
        self.mods = [(R, R.iterate_chunks), (S, S.iterate_chunks)]

        def wrapper(shape, chunk_shape=None, n_max=None):
            self.calls += 1
            out = list(real(shape, chunk_shape=chunk_shape, n_max=self.n if n_max is not None else None))
            self.chunks += len(out)
            return iter(out)
        if self.n is not None:
            R.iterate_chunks = S.iterate_chunks = wrapper
        return self

    def __exit__(self, *a):
        for m, f in self.mods:
            m.iterate_chunks = f
        return False


def _pre2(x, y):
    return x * 0.5 + 1.25, y - 0.75


def _pre2_inv(u, v):
    return (u - 1.25) * 2.0, v + 0.75


def _pre3(x, y, z):
    return x + 0.5, y * 2.0, z - 0.25


def f_chunk(res, c):
    from glue.core import Data
    from glue.core.subset import RoiSubsetState, RoiSubsetStateNd
    shp = tuple(c['shape'])
    n = int(np.prod(shp))
    tgt = c['target']
    kind = kind_of(c['roi'])
    if tgt in ('contains3d', 'state3d'):
        roi, o = build(c['roi'])
        gx, gy = geom.grid(o.s, 6, 1.2)
        X, Y = np.meshgrid(gx, gy)
        sx, sy = X.ravel()[:n], Y.ravel()[:n]
        if n > 36:
            raise ValueError('shape too large for the chunk lattice')
        w = o.unproject(sx, sy, DEPTHS[np.arange(n) % 3])
        if tgt == 'state3d' and c['pre']:
            data_vals = [w[0] - 0.5, w[1] / 2.0, w[2] + 0.25]
        else:
            data_vals = list(w)
        exp, dist = o.inside3(*w), o.bdist3(*w)
        if tgt == 'contains3d':
            arrs = [a.reshape(shp) for a in w]
            run = lambda: roi.contains3d(*arrs)
        else:
            d = Data(x=data_vals[0].reshape(shp), y=data_vals[1].reshape(shp), z=data_vals[2].reshape(shp), label='d')
            st = RoiSubsetStateNd([d.id['x'], d.id['y'], d.id['z']], roi=roi, pretransform=_pre3 if c['pre'] else None)
            run = lambda: st.to_mask(d)
    elif tgt == 'state2d':
        roi, o = build(c['roi'])
        gx, gy = geom.grid(o, 6, 1.2)
        X, Y = np.meshgrid(gx, gy)
        sx, sy = X.ravel()[:n], Y.ravel()[:n]
        exp, dist = o.inside(sx, sy), o.bdist(sx, sy)
        vals = _pre2_inv(sx, sy) if c['pre'] else (sx, sy)
        d = Data(x=vals[0].reshape(shp), y=vals[1].reshape(shp), label='d')
        st = RoiSubsetState(d.id['x'], d.id['y'], roi=roi, pretransform=_pre2 if c['pre'] else None)
        run = lambda: st.to_mask(d)
    elif tgt == 'pixel':
        # region in the pixel space of two axes (the "apply to one slice and broadcast" path of to_mask)
        roi, o0 = build(c['roi'])
        ax_x, ax_y = c['axes']
        d = Data(v=np.zeros(shp), label='d')
        pix = np.meshgrid(*[np.arange(s, dtype=float) for s in shp], indexing='ij')
        qx, qy = pix[ax_x], pix[ax_y]
        if c['pre']:
            qx, qy = _pre2(qx, qy)       # the region lives in the pretransformed space
        tx, ty = (qx.min() + qx.max()) / 2 + 0.3, (qy.min() + qy.max()) / 2 - 0.2
        c0 = _centre_tuple(roi.center())
        if isinstance(o0, geom.Strip):
            t = tx if o0.ori == 'x' else ty
            roi.move_to(t)
            o = o0.moved(t - c0[0])
        else:
            roi.move_to(tx, ty)
            o = o0.moved(tx - c0[0], ty - c0[1])
        exp, dist = o.inside(qx, qy).ravel(), o.bdist(qx, qy).ravel()
        st = RoiSubsetState(d.pixel_component_ids[ax_x], d.pixel_component_ids[ax_y], roi=roi,
                            pretransform=_pre2 if c['pre'] else None)
        run = lambda: st.to_mask(d)
    else:
        raise ValueError(tgt)
    band = 1e-6 * max(1.0, float(np.max(np.abs([v for v in (o.s if isinstance(o, geom.Projected) else o).bbox()]))))
    ok = dist > band
    nontriv = bool(exp[ok].any() and not exp[ok].all())
    for n_max in [None] + list(range(1, n + 2)):
        with ChunkPatch(n_max) as cp:
            try:
                got = np.asarray(run())
                err = None
            except Exception as e:
                got, err = None, e
        if n_max is not None and cp.calls == 0 and err is None:
            break                        # this path does not chunk: the unpatched evaluation above is all there is
        unchunked = tgt in ('state2d', 'pixel') and not c.get('pre')
        res.case(sig=('chunk', core.short_hash(c), n_max) if nontriv and (cp.chunks > 1 or unchunked) else None,
                 sample=dict(family='chunk', target=tgt, roi=c['roi'], shape=list(shp), n_max=n_max,
                             chunks=cp.chunks) if cp.chunks > 1 else None)
        res.count('chunk_wrapper_calls', cp.calls)
        res.count('chunks_produced', cp.chunks)
        label = 'default' if n_max is None else ('n_max<n' if n_max < n else 'n_max>=n')
        key = 'chunk|%s|%s|%s' % (tgt + ('+pre' if c.get('pre') else ''), kind, label)
        cc = dict(c, n_max=n_max)
        if err is not None:
            res.violation('chunk', key + '|raises-' + type(err).__name__, cc, repr(err), 'mask')
            continue
        if got.shape != shp:
            res.violation('chunk', key + '|output-shape', cc, list(got.shape), list(shp))
            continue
        bad = ok & (got.ravel().astype(bool) != exp)
        if bad.any():
            res.violation('chunk', key, cc, dict(mask=got.astype(int).ravel().tolist()),
                          dict(mask=exp.astype(int).tolist(), compared=ok.astype(int).tolist()))


def f_cat(res, c):
    from glue.core.roi import CategoricalROI
    from glue.core.component import CategoricalComponent
    name = c['alphabet']
    alpha = CAT_ALPHABETS[name]
    members = [alpha[i] for i in c['members']]
    cats = members + ([CAT_OUTSIDE[name][2], members[0]] if c['extra'] and members else
                      ([CAT_OUTSIDE[name][2]] if c['extra'] else []))
    pool = alpha + CAT_OUTSIDE[name][:2]          # labels sorting before the first and after the last category
    mset = set(cats)
    for how in ('direct', 'copy', 'restore', 'update'):
        if how == 'update':
            roi = CategoricalROI()
            roi.update_categories(np.array(cats) if cats else np.array([], dtype=np.array(alpha).dtype))
        else:
            roi = CategoricalROI(cats)
            if how == 'copy':
                roi = roi.copy()
            elif how == 'restore':
                roi = clone_roi(roi)
        for L in range(0, c['length'] + 1):
            if how != 'direct' and L < 3:
                continue
            for combo in itertools.product(range(len(pool)), repeat=L):
                vals = np.array([pool[i] for i in combo], dtype=np.array(pool).dtype)
                exp = np.array([v in mset for v in vals.tolist()], dtype=bool)
                forms = [('1d', vals)]
                if L == 4:
                    forms.append(('2d', vals.reshape(2, 2)))
                if L >= 3 and how == 'direct':
                    forms.append(('component', CategoricalComponent(vals)))
                for form, x in forms:
                    res.case(sig=('cat', name, tuple(c['members']), c['extra'], how, combo, form)
                             if exp.any() and not exp.all() else None,
                             sample=dict(family='cat', categories=cats, values=vals.tolist()))
                    try:
                        got = np.asarray(roi.contains(x, None))
                        good = got.shape == (exp.reshape(np.shape(x)).shape if form == '2d' else exp.shape) and \
                            np.array_equal(got.ravel().astype(bool), exp)
                    except Exception as e:
                        got, good = repr(e), False
                    if not good:
                        res.violation('categorical', 'cat|%s|%s|%s' % (name, how, form),
                                      dict(c, values=vals.tolist(), how=how, form=form),
                                      core.jdefault(got), exp.tolist())


FAMILIES = dict(contains=f_contains, shapes=f_shapes, move=f_move, rotate=f_rotate, topoly=f_topoly,
                clone=f_clone, chunk=f_chunk, cat=f_cat)


def glue_frame(e):
    """Name of the innermost glue function on the traceback if the exception came out of glue code that
    the harness called (innermost frame belonging to either glue or the harness is a glue frame)."""
    import traceback
    import os
    repo = os.path.realpath(core.REPO) + os.sep
    for fr in reversed(traceback.extract_tb(e.__traceback__)):
        fn = os.path.realpath(fr.filename)
        if fn.startswith(repo):
            return fr.name
        if fn.startswith(core.VERIF + os.sep):
            return None
    return None


def do_case(res, c):
    core.reset_globals()
    n0 = res.evaluations
    try:
        FAMILIES[c['f']](res, c)
        res.count('evaluations_' + c['f'], res.evaluations - n0)
    except Exception as e:
        fn = glue_frame(e)
        if fn is None:
            raise
        res.case()
        kind = kind_of(c['roi']) if 'roi' in c else c['f']
        res.violation('raises-' + c['f'], 'raises|%s|%s@%s' % (kind, type(e).__name__, fn), c, repr(e),
                      'no exception')


def work(shard):
    tier, cases = shard
    core.bind()
    res = core.Result()
    for c in cases:
        do_case(res, c)
    return res


def run(tier):
    t0 = time.time()
    core.bind()
    cases = core.rotate(all_cases(tier))
    total = core.run_shards(work, [(tier, s) for s in core.split(cases, core.jobs() * 8)])
    fam = {}
    for c in cases:
        fam[c['f']] = fam.get(c['f'], 0) + 1
    dims = dict(region_descriptors=len(all_specs(tier)), thetas=len(thetas(tier)), centres=len(centres(tier)),
                move_targets=len(targets(tier)), polygons=len(list(poly_specs(tier))),
                projection_matrices=len(matrices()), lattice='25x25 + straddle points' + ('' if tier == 'quick' else ' and 37x37 + straddle points'),
                descriptors_per_family=fam)
    samples, seen = [], set()
    for c in all_cases(tier):
        if c['f'] not in seen:
            seen.add(c['f'])
            samples.append(c)
    return core.finish(PROP, tier, total, 'exploration', RULE, t0,
                       coverage=dict(product_dimensions=dims, samples=samples),
                       confirm=confirm, assumptions=ASSUMPTIONS)


def confirm(v, verbose=False):
    core.bind()
    res = core.Result()
    c = dict(v['case'])
    if c['f'] == 'chunk':
        c.pop('n_max', None)
    if c['f'] == 'cat':
        for k in ('values', 'how', 'form'):
            c.pop(k, None)
    do_case(res, c)
    hit = [x for x in res.violations if x['key'] == v['key']]
    if verbose:
        for x in hit[:1]:
            print('  observed', core._clip(x['observed']))
            print('  expected', core._clip(x['expected']))
            if x.get('detail'):
                print('  detail  ', x['detail'])
    return bool(hit)


def replay(doc):
    return confirm(doc, verbose=True)
