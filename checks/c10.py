"""C10 - statistics and histograms equal their definition regardless of chunking or views (Mode I).

Four families of cases, each a complete Cartesian product of small alphabets:

  stat     Data.compute_statistic   shape x attribute x selection x view x axis
                                    x (statistic, percentile) x finite x positive x n_chunk_max
  hist     Data.compute_histogram   shape x selection x weights x (1-d | 2-d) x lin/log x range x bins
  vhist    HistogramLayerState.histogram   (what the histogram viewer plots)
  profile  ProfileLayerState.profile       (what the profile viewer plots)

The oracle never uses glue: masks are built with numpy from the definition of each selection, the view is
applied with plain numpy indexing to the full arrays, and the statistic is the NaN-aware numpy reduction of
where(keep, values, nan); histograms are counted element by element with exact rational arithmetic.
"""
import math
import time
import hashlib
import itertools
from fractions import Fraction

import numpy as np

from mc import core

PROP = 'C10'

# =====================================================================================================
# value palettes (VERIF_SEED selects one of three; all dyadic so that sums and bin membership are exact)
# =====================================================================================================
PALETTES = [(7, 3, 11, 4), (5, 1, 13, 6), (11, 2, 9, 3)]


def arrays(shape, pal):
    """x: float with 0, NaN, -inf, +inf; xf: the same without NaN; s: attribute used by value selections;
    xi: integer dtype."""
    n = int(np.prod(shape))
    a, b, m, c = PALETTES[pal % 3]
    base = np.array([(((i * a + b) % m) - c) * 0.5 for i in range(n)])
    base[0] = 0.0
    xf = base.copy()
    xf[n // 2] = -np.inf
    xf[n - 2] = np.inf
    x = xf.copy()
    x[1] = np.nan
    if n >= 12:
        x[n - 1] = np.nan
    s = np.array([float(((i * 5 + 2 + pal) % 7) - 3) for i in range(n)])
    xi = np.array([((i * a + b) % m) - c for i in range(n)], dtype=np.int64)
    return dict(x=x.reshape(shape), xf=xf.reshape(shape), s=s.reshape(shape), xi=xi.reshape(shape))


def build(shape, pal):
    from glue.core import Data
    arrs = arrays(tuple(shape), pal)
    d = Data(label='d', **{k: v.copy() for k, v in arrs.items()})
    return d, arrs


# =====================================================================================================
# selections: a glue SubsetState and, independently, the numpy mask it denotes
# =====================================================================================================
SEL_QUICK = ['none', 'ineq', 'empty', 'pixroi', 'slice-step', 'slice-unit', 'mask', 'block', 'and']
SEL_ALL = SEL_QUICK + ['emptybase', 'pixineq', 'not', 'or-slice']


def _slices_for(kind, shape):
    nd = len(shape)
    if kind == 'slice-step':
        return [slice(1, None)] + [slice(None, None, 2)] * (nd - 1)
    if kind == 'slice-unit':
        return [slice(1, 3)] if nd == 1 else [slice(1, 3)] + [slice(None)] * (nd - 2) + [slice(0, 2)]
    if kind == 'block':
        return [slice(1, max(2, n - 1)) for n in shape]
    raise ValueError(kind)


def sel_mask(kind, shape, arrs):
    shape = tuple(shape)
    nd = len(shape)
    idx = np.indices(shape)
    if kind == 'none':
        return None
    if kind in ('empty', 'emptybase'):
        return np.zeros(shape, bool)
    if kind == 'ineq':
        return arrs['s'] > -0.5
    if kind == 'not':
        return ~(arrs['s'] > -0.5)
    if kind == 'and':
        return (arrs['s'] > -0.5) & (idx[-1] < shape[-1] - 1)
    if kind == 'pixineq':
        return idx[0] >= 1
    if kind == 'pixroi':
        if nd == 1:
            return (idx[0] >= 1) & (idx[0] <= 3)
        return (idx[-1] >= 1) & (idx[-1] <= 2) & (idx[-2] >= 0) & (idx[-2] <= 1)
    if kind == 'mask':
        return (np.arange(int(np.prod(shape))).reshape(shape) % 3) != 0
    if kind in ('slice-step', 'slice-unit', 'block'):
        m = np.zeros(shape, bool)
        m[tuple(_slices_for(kind, shape))] = True
        return m
    if kind == 'or-slice':
        return sel_mask('slice-step', shape, arrs) | sel_mask('mask', shape, arrs)
    raise ValueError(kind)


def make_state(kind, d, arrs):
    from glue.core.subset import (SubsetState, SliceSubsetState, MaskSubsetState, RoiSubsetState,
                                  RangeSubsetState, OrState)
    from glue.core.roi import RectangularROI
    pix = d.pixel_component_ids
    s = d.id['s']
    shape = d.shape
    if kind == 'none':
        return None
    if kind == 'empty':
        return s > 1e9
    if kind == 'emptybase':
        return SubsetState()
    if kind == 'ineq':
        return s > -0.5
    if kind == 'not':
        return ~(s > -0.5)
    if kind == 'and':
        return (s > -0.5) & (pix[-1] < shape[-1] - 1)
    if kind == 'pixineq':
        return pix[0] >= 1
    if kind == 'pixroi':
        if d.ndim == 1:
            return RangeSubsetState(0.5, 3.5, pix[0])
        return RoiSubsetState(pix[-1], pix[-2], RectangularROI(0.5, 2.5, -0.5, 1.5))
    if kind == 'mask':
        return MaskSubsetState(sel_mask('mask', shape, arrs), pix)
    if kind in ('slice-step', 'slice-unit'):
        return SliceSubsetState(d, _slices_for(kind, shape))
    if kind == 'block':
        return MaskSubsetState(sel_mask('block', shape, arrs), pix)
    if kind == 'or-slice':
        return OrState(SliceSubsetState(d, _slices_for('slice-step', shape)),
                       MaskSubsetState(sel_mask('mask', shape, arrs), pix))
    raise ValueError(kind)


# =====================================================================================================
# compute_statistic
# =====================================================================================================
STATS = [('minimum', None), ('maximum', None), ('mean', None), ('median', None), ('sum', None),
         ('percentile', 0), ('percentile', 30), ('percentile', 50), ('percentile', 100)]

VP_FULL = [(None, None, None), (1, None, None), (None, -1, None), (None, None, 2), (1, None, 2), (1, 3, None)]
VP_MID = [(None, None, None), (1, None, None), (None, None, 2), (1, None, 2)]
VP_SMALL = [(None, None, None), (1, None, None), (None, None, 2)]


def views_for(nd, pal):
    """None plus every tuple (length 1..nd) of positive-step slices from the per-axis palette."""
    out = [None]
    for k in range(1, nd + 1):
        out += [[list(e) for e in t] for t in itertools.product(pal, repeat=k)]
    return out


def axes_for(nd):
    out = [None] + list(range(nd))
    for r in range(1, nd + 1):
        out += [list(t) for t in itertools.combinations(range(nd), r)]
    return out


def stat_cases(tier):
    """Outer descriptors ('stat', shape, attr, sel, view, axis); the worker loops over
    statistic x finite x positive x n_chunk_max inside each."""
    if tier == 'quick':
        plan = [((7,), VP_FULL, VP_FULL), ((3, 4), VP_FULL, VP_SMALL), ((2, 3, 4), VP_MID, None)]
        sels = SEL_QUICK
    else:
        plan = [((7,), VP_FULL, VP_FULL), ((3, 4), VP_FULL, VP_MID), ((4, 3), VP_FULL, None),
                ((2, 3, 4), VP_FULL, VP_SMALL), ((3, 2, 3), VP_MID, None), ((2, 2, 2, 3), VP_SMALL, None)]
        sels = SEL_ALL
    out = []
    for shape, vp_main, vp_other in plan:
        nd = len(shape)
        for attr, vp in (('main', vp_main), ('pix', vp_other), ('int', vp_other)):
            if vp is None:
                continue
            for sel in sels:
                for view in views_for(nd, vp):
                    for axis in axes_for(nd):
                        out.append(['stat', list(shape), attr, sel, view, axis])
        # views that fix one dimension with an integer (what IndexedData and the profile/image viewers pass):
        # the result and the reduction axes are those of the viewed array
        for sel in sels:
            for view in int_views(shape):
                for axis in axes_for(nd - 1) if nd > 1 else [None]:
                    out.append(['stat', list(shape), 'main', sel, view, axis])
    return out


def int_views(shape):
    nd = len(shape)
    out = []
    for i in range(nd):
        for idx in sorted(set([0, 1, shape[i] - 1, -1])):
            rest = [[[None, None, None]], [[None, None, None], [1, None, 2]]][1 if nd > 1 else 0]
            for others in itertools.product(rest, repeat=nd - 1):
                v = [list(e) for e in others]
                v.insert(i, idx)
                out.append(v)
    return out


def to_view(view):
    return None if view is None else tuple(e if isinstance(e, int) else slice(*e) for e in view)


def to_axis(axis):
    return tuple(axis) if isinstance(axis, list) else axis


def attr_of(attr, finite):
    """component label and oracle array key; NaN-free palette whenever finite=False (DESIGN C10 calibration a)"""
    if attr == 'main':
        return ('x', 'x') if finite else ('xf', 'xf')
    if attr == 'int':
        return ('xi', 'xi')
    return ('pix', 'pix')


def oracle_stat(vals, mask, view, axis, stat, pct, finite, positive):
    v = np.asarray(vals, dtype=float)
    if view is not None:
        v = v[view]
    keep = np.ones(v.shape, bool)
    if mask is not None:
        keep &= mask if view is None else mask[view]
    if finite:
        keep &= np.isfinite(v)
    if positive:
        keep &= v > 0
    w = np.where(keep, v, np.nan)
    if stat == 'sum':
        r = np.nansum(w, axis=axis)
        cnt = np.sum(~np.isnan(w), axis=axis)
        r = np.where(cnt == 0, np.nan, r)
    elif stat == 'percentile':
        r = np.nanpercentile(w, pct, axis=axis)
    else:
        f = dict(minimum=np.nanmin, maximum=np.nanmax, mean=np.nanmean, median=np.nanmedian)[stat]
        r = f(w, axis=axis)
    return np.asarray(r, dtype=float), bool(keep.any())


def compare(got, exp):
    """None if equal; else 'type' / 'shape' / 'value'"""
    try:
        g = np.asarray(got, dtype=float)
    except Exception:
        return 'type'
    e = np.asarray(exp, dtype=float)
    if g.shape != e.shape:
        return 'shape'
    fin = np.isfinite(g) & np.isfinite(e)
    close = np.zeros(g.shape, bool)
    close[fin] = np.abs(g[fin] - e[fin]) <= 1e-12 * np.maximum(1.0, np.abs(e[fin]))
    ok = close | (np.isnan(g) & np.isnan(e)) | (~fin & (g == e))
    return None if bool(np.all(ok)) else 'value'


def stat_class(sel, sel_is_slice, mask_in_view_any, view, axis, nd):
    """(selection family, view family, axis family) - the class signature used in keys and coverage counters"""
    if sel == 'none':
        a = 'no-selection'
    elif sel_is_slice and view is None:
        a = 'slice-shortcut'
    elif not mask_in_view_any:
        a = 'empty-selection'
    else:
        a = 'selection'
    if view is None:
        b = 'no-view'
    elif any(isinstance(e, int) for e in view):
        b = 'integer-view'
        nd -= 1
    elif all(e[2] in (None, 1) for e in view):
        b = 'unit-view'
    else:
        b = 'stepped-view'
    if axis is None:
        c = 'no-axis'
    else:
        ax = (axis,) if isinstance(axis, int) else tuple(axis)
        c = 'all-axes' if len(set(ax)) == nd else 'partial-axis'
    return [a, b, c]


def stat_key(attr, cls, chunked, outcome):
    parts = list(cls)
    if chunked:
        parts.append('chunked')
    if attr != 'main':
        parts.append('%s-attr' % ('pixel' if attr == 'pix' else attr))
    return 'stat|%s|%s' % ('+'.join(parts), outcome)


def sig_of(*t):
    return int.from_bytes(hashlib.blake2b(repr(t).encode(), digest_size=8).digest(), 'big')


class StatWorld(object):
    """Fresh real objects + oracle arrays for one (shape, selection)."""

    def __init__(self, shape, sel, pal):
        self.shape = tuple(shape)
        self.d, self.arrs = build(self.shape, pal)
        self.arrs = dict(self.arrs)
        self.arrs['pix'] = np.indices(self.shape)[0].astype(float)
        self.sel = sel
        self.state = make_state(sel, self.d, self.arrs)
        self.mask = sel_mask(sel, self.shape, self.arrs)
        from glue.core.subset import SliceSubsetState
        self.is_slice = isinstance(self.state, SliceSubsetState)

    def cid(self, label):
        return self.d.pixel_component_ids[0] if label == 'pix' else self.d.id[label]


def eval_stat(w, attr, view, axis, stat, pct, finite, positive, n_chunk):
    """One real call against the oracle.  Returns (key or None, observed, expected, nontrivial)."""
    label, okey = attr_of(attr, finite)
    v = to_view(view)
    ax = to_axis(axis)
    exp, anykeep = oracle_stat(w.arrs[okey], w.mask, v, ax, stat, pct, finite, positive)
    nd = len(w.shape)
    size = int(np.prod(w.shape))
    chunked = (n_chunk is not None and v is None and isinstance(ax, tuple) and len(ax) == nd - 1 and nd > 1 and
               size > n_chunk and not w.is_slice)
    if w.mask is None:
        many = True
    else:
        many = bool((w.mask if v is None else w.mask[v]).any())
    cls = stat_class(w.sel, w.is_slice, many, view, axis, nd)
    w.last_class = '+'.join(cls) + ('+chunked' if chunked else '')
    kw = dict(subset_state=w.state, axis=ax, finite=finite, positive=positive, view=v)
    if stat == 'percentile':
        kw['percentile'] = pct
    if n_chunk is not None:
        kw['n_chunk_max'] = n_chunk
    try:
        got = w.d.compute_statistic(stat, w.cid(label), **kw)
    except Exception as e:
        return stat_key(attr, cls, chunked, type(e).__name__), repr(e), exp, anykeep
    bad = compare(got, exp)
    if bad is None:
        return None, None, exp, anykeep
    outcome = bad if bad != 'value' else 'value:%s' % stat
    return stat_key(attr, cls, chunked, outcome), \
        dict(shape=list(np.shape(got)), value=np.asarray(got, dtype=float) if bad != 'type' else repr(got)), \
        exp, anykeep


def chunk_list(shape, view, axis, tier):
    nd = len(shape)
    size = int(np.prod(shape))
    if view is None and isinstance(axis, list) and len(axis) == nd - 1 and nd > 1:
        return [None, 1, 2, 3, 5, size - 1, size]
    if view is None and tier == 'thorough':
        return [None, 2]
    return [None]


def do_stat(res, case, tier, pal):
    _, shape, attr, sel, view, axis = case
    core.reset_globals()
    w = StatWorld(shape, sel, pal)
    done = []
    for n_chunk in chunk_list(shape, view, axis, tier):
        for stat, pct in STATS:
            for finite in (True, False):
                for positive in (False, True):
                    key, obs, exp, nontrivial = eval_stat(w, attr, view, axis, stat, pct, finite, positive, n_chunk)
                    desc = dict(kind='stat', shape=shape, palette=pal, attr=attr, sel=sel, view=view, axis=axis,
                                stat=stat, pct=pct, finite=finite, positive=positive, n_chunk=n_chunk)
                    res.case(sig=sig_of(shape, attr, sel, view, axis, stat, pct, finite, positive, n_chunk)
                             if nontrivial else None, sample=desc)
                    res.count('stat_evaluations|' + w.last_class)
                    call = [stat, pct, finite, positive, n_chunk]
                    if key is not None:
                        res.count('stat_violating|' + w.last_class)
                        # the requests of one case share the dataset and the selection object: a violation may
                        # need earlier requests (what a viewer does all day) - keep the minimal such prefix
                        prefix = stat_prefix(desc, done, key)
                        if prefix:
                            desc = dict(desc, prefix=prefix)
                            key += '|after-earlier-requests'
                        res.violation('statistic-equals-definition', key, desc, obs, exp)
                        core.reset_globals()
                        w = StatWorld(shape, sel, pal)
                        done = []
                    else:
                        done.append(call)


def stat_prefix(desc, done, key):
    def repro(prefix):
        return confirm_stat(dict(desc, prefix=prefix))[0] == key
    if repro([]):
        return []
    prefix = list(done)
    if not repro(prefix):
        raise core.EngineError('ENGINE-NONDETERMINISM: %s not reproduced on fresh objects after the same requests: %r'
                               % (key, dict(desc, prefix=prefix)))
    if repro(prefix[-1:]):
        return prefix[-1:]
    i = len(prefix) - 1
    while i >= 0:
        cand = prefix[:i] + prefix[i + 1:]
        if repro(cand):
            prefix = cand
        i -= 1
    return prefix


def confirm_stat(c):
    core.reset_globals()
    w = StatWorld(c['shape'], c['sel'], c['palette'])
    for stat, pct, finite, positive, n_chunk in c.get('prefix') or []:
        eval_stat(w, c['attr'], c['view'], c['axis'], stat, pct, finite, positive, n_chunk)
    key, obs, exp, _ = eval_stat(w, c['attr'], c['view'], c['axis'], c['stat'], c['pct'], c['finite'],
                                 c['positive'], c['n_chunk'])
    return key, obs, exp


# =====================================================================================================
# compute_histogram
# =====================================================================================================
# end values (shared by all palettes so that range ends can coincide with data values): -3.75 -1.75 0 0.25 4.25 7.75
HX = [[-3.75, -1.75, None, 0.0, 0.25, 1.25, 2.5, 4.25, 'inf', 5.75, '-inf', 7.75],
      [-3.75, -1.75, None, 0.0, 0.25, 1.5, 3.0, 4.25, 'inf', 6.25, '-inf', 7.75],
      [-3.75, -1.75, None, 0.0, 0.25, 0.75, 2.75, 4.25, 'inf', 6.5, '-inf', 7.75]]
HY = [[1.25, 'inf', 0.25, -1.75, 4.25, None, 7.75, 2.5, 5.75, 0.0, -3.75, 1.0],
      [1.5, 'inf', 0.25, -1.75, 4.25, None, 7.75, 3.0, 6.25, 0.0, -3.75, 1.0],
      [0.75, 'inf', 0.25, -1.75, 4.25, None, 7.75, 2.75, 6.5, 0.0, -3.75, 1.0]]
HW = [0.5, 1.0, 2.0, -1.0, 0.0, 3.0, 0.25, 1.5, 2.0, 1.0, 4.0, 0.75]
H_SHAPES = [(24,), (4, 6)]
# linear ranges: plain, ends equal to data values, zero / negative upper end (with and without a value on it),
# reversed, empty of data
R_LIN = [(-4.0, 8.0), (-3.0, 7.0), (1.0, 3.0), (-3.75, 7.75), (0.25, 4.25), (0.0, 4.25), (0.25, 7.75),
         (-3.75, -1.75), (-3.75, 0.0), (-6.0, -1.75), (-6.0, -1.0), (4.25, 0.25), (7.75, -1.75), (-1.75, -3.75),
         (10.0, 12.0)]
R_LOG = [(0.25, 7.75), (1.0, 4.0), (2.0, 8.0), (7.75, 0.25), (8.0, 2.0), (0.5, 16.0), (4.25, 7.75),
         (0.125, 0.25), (0.0625, 0.5), (16.0, 64.0)]
H_SELS = ['none', 'ineq', 'mask', 'empty', 'slice-step', 'pixroi']


def _f(v):
    return np.nan if v is None else (np.inf if v == 'inf' else (-np.inf if v == '-inf' else v))


def hist_arrays(shape, pal):
    n = int(np.prod(shape))
    hx, hy = HX[pal % 3], HY[pal % 3]
    # second half: same x values against a rotated y list, so that all n (x, y) pairs are distinct
    x = np.array([_f(hx[i % 12]) for i in range(n)]).reshape(shape)
    y = np.array([_f(hy[(i + 5 * (i // 12)) % 12]) for i in range(n)]).reshape(shape)
    w = np.array([HW[(i + i // 12) % 12] for i in range(n)]).reshape(shape)
    s = np.array([float(((i * 5 + 2 + pal) % 7) - 3) for i in range(n)]).reshape(shape)
    return dict(x=x, y=y, w=w, s=s)


def hist_build(shape, pal):
    from glue.core import Data
    arrs = hist_arrays(tuple(shape), pal)
    d = Data(label='d', **{k: v.copy() for k, v in arrs.items()})
    return d, arrs


def bin_index(v, lo, hi, nb, log):
    """(index or None if out of range / not finite, tie flag).  lo < hi."""
    if not (v == v) or v in (np.inf, -np.inf) or v < lo or v > hi:
        return None, False
    if v == hi:
        return nb - 1, False
    if v == lo:
        return 0, False
    if log:
        t = (math.log10(v) - math.log10(lo)) / (math.log10(hi) - math.log10(lo)) * nb
        k = round(t)
        if abs(t - k) < 1e-9 and 0 < k < nb:
            return None, True
        return min(max(int(math.floor(t)), 0), nb - 1), False
    t = (Fraction(v) - Fraction(lo)) * nb / (Fraction(hi) - Fraction(lo))
    if t.denominator == 1 and 0 < t < nb:
        return None, True
    return int(math.floor(t)), False


def oracle_hist(arrs, mask, atts, weighted, ranges, bins, logs):
    """counts array, number of in-range selected finite elements, tie flag, at-negative-upper-end flag"""
    cols = [arrs[a].ravel().tolist() for a in atts]
    ws = arrs['w'].ravel().tolist()
    ms = [True] * len(ws) if mask is None else mask.ravel().tolist()
    rr = [tuple(sorted(r)) for r in ranges]
    out = np.zeros(tuple(bins))
    n_in = 0
    tie = False
    neg_end = False
    for i in range(len(ws)):
        if not ms[i]:
            continue
        ix = []
        for a in range(len(atts)):
            k, t = bin_index(cols[a][i], rr[a][0], rr[a][1], bins[a], logs[a])
            tie = tie or t
            ix.append(k)
        if any(k is None for k in ix):
            continue
        for a in range(len(atts)):
            top = math.log10(rr[a][1]) if logs[a] else rr[a][1]
            if cols[a][i] == rr[a][1] and top < 0:
                neg_end = True
        out[tuple(ix)] += ws[i] if weighted else 1
        n_in += 1
    return out, n_in, tie, neg_end


def hist_cases(tier):
    bmax2 = 3 if tier == 'quick' else 5
    out = []
    for shape in H_SHAPES:
        for sel in H_SELS:
            for weighted in (False, True):
                for log in (False, True):
                    for r in (R_LOG if log else R_LIN):
                        out.append(['hist', list(shape), sel, weighted, [log], [list(r)], None])
                for lx, ly in itertools.product((False, True), repeat=2):
                    for rx in (R_LOG if lx else R_LIN):
                        out.append(['hist', list(shape), sel, weighted, [lx, ly], [list(rx)], bmax2])
    return out


def eval_hist(d, arrs, state, mask, atts, weighted, ranges, bins, logs):
    exp, n_in, tie, neg_end = oracle_hist(arrs, mask, atts, weighted, ranges, bins, logs)
    if tie:
        return 'tie', None, exp, n_in
    dim = '%dd' % len(atts)
    scale = ','.join('log' if g else 'lin' for g in logs)
    cls = 'value-at-negative-upper-end' if neg_end else 'plain'
    try:
        got = d.compute_histogram([d.id[a] for a in atts], weights=d.id['w'] if weighted else None,
                                  range=[tuple(r) for r in ranges], bins=list(bins), log=list(logs),
                                  subset_state=state)
    except Exception as e:
        return 'hist|%s|%s|%s|%s' % (dim, scale, cls, type(e).__name__), repr(e), exp, n_in
    bad = compare(got, exp)
    if bad is None:
        return None, None, exp, n_in
    if bad == 'value':
        g = np.asarray(got, dtype=float)
        bad = 'bins' if (weighted or abs(float(g.sum()) - n_in) < 1e-9) else 'total'
    return 'hist|%s|%s|%s|%s' % (dim, scale, cls, bad), np.asarray(got), exp, n_in


def do_hist(res, case, tier, pal):
    _, shape, sel, weighted, logs, ranges, bmax2 = case
    core.reset_globals()
    d, arrs = hist_build(shape, pal)
    state = make_state(sel, d, arrs)
    mask = sel_mask(sel, tuple(shape), arrs)
    if len(logs) == 1:
        combos = [(['x'], ranges, [b]) for b in range(1, 6)]
    else:
        combos = [(['x', 'y'], ranges + [list(ry)], [bx, by])
                  for ry in (R_LOG if logs[1] else R_LIN)
                  for bx in range(1, bmax2 + 1) for by in range(1, bmax2 + 1)]
    for atts, rr, bins in combos:
        key, obs, exp, n_in = eval_hist(d, arrs, state, mask, atts, weighted, rr, bins, logs)
        desc = dict(kind='hist', shape=shape, palette=pal, sel=sel, weighted=weighted, atts=atts, ranges=rr,
                    bins=bins, logs=logs)
        if key == 'tie':
            res.count('hist_cases_excluded_value_on_interior_bin_edge')
            continue
        res.case(sig=sig_of('h', shape, sel, weighted, atts, rr, bins, logs) if n_in > 0 else None, sample=desc)
        if key is not None:
            res.violation('histogram-equals-definition', key, desc, obs, exp)


def confirm_hist(c):
    core.reset_globals()
    d, arrs = hist_build(c['shape'], c['palette'])
    state = make_state(c['sel'], d, arrs)
    mask = sel_mask(c['sel'], tuple(c['shape']), arrs)
    key, obs, exp, _ = eval_hist(d, arrs, state, mask, c['atts'], c['weighted'], c['ranges'], c['bins'], c['logs'])
    return key, obs, exp


# =====================================================================================================
# what the viewers plot: HistogramLayerState.histogram, ProfileLayerState.profile (no GUI needed)
# =====================================================================================================
def vhist_cases(tier):
    out = []
    for shape in H_SHAPES:
        for sel in H_SELS:
            for log in (False, True):
                out.append(['vhist', list(shape), sel, log])
    return out


def eval_vhist(shape, pal, sel, log, r, nb):
    from glue.core import DataCollection
    from glue.viewers.histogram.state import HistogramViewerState, HistogramLayerState
    d, arrs = hist_build(shape, pal)
    dc = DataCollection([d])
    mask = sel_mask(sel, tuple(shape), arrs)
    if sel == 'none':
        layer = d
    else:
        layer = dc.new_subset_group(subset_state=make_state(sel, d, arrs), label='s').subsets[0]
    vs = HistogramViewerState()
    ls = HistogramLayerState(layer=layer, viewer_state=vs)
    vs.layers.append(ls)
    vs.x_att = d.id['x']
    vs.x_log = log
    vs.hist_n_bin = nb
    vs.hist_x_min, vs.hist_x_max = r
    exp, n_in, tie, neg_end = oracle_hist(arrs, mask, ['x'], False, [r], [nb], [log])
    lo, hi = sorted(r)
    e_edges = np.logspace(np.log10(lo), np.log10(hi), nb + 1) if log else np.linspace(lo, hi, nb + 1)
    if tie:
        return 'tie', None, exp, n_in
    cls = 'value-at-negative-upper-end' if neg_end else 'plain'
    scale = 'log' if log else 'lin'
    try:
        edges, vals = ls.histogram
    except Exception as e:
        return 'vhist|%s|%s|%s' % (scale, cls, type(e).__name__), repr(e), exp, n_in
    bad = compare(edges, e_edges)
    if bad is not None:
        return 'vhist|%s|%s|edges-%s' % (scale, cls, bad), np.asarray(edges), e_edges, n_in
    bad = compare(vals, exp)
    if bad is not None:
        return 'vhist|%s|%s|%s' % (scale, cls, bad), np.asarray(vals), exp, n_in
    return None, None, exp, n_in


def do_vhist(res, case, tier, pal):
    _, shape, sel, log = case
    for r in (R_LOG if log else R_LIN):
        for nb in range(1, 6):
            core.reset_globals()
            key, obs, exp, n_in = eval_vhist(shape, pal, sel, log, list(r), nb)
            desc = dict(kind='vhist', shape=shape, palette=pal, sel=sel, log=log, range=list(r), bins=nb)
            if key == 'tie':
                res.count('hist_cases_excluded_value_on_interior_bin_edge')
                continue
            res.case(sig=sig_of('vh', shape, sel, log, r, nb) if n_in > 0 else None, sample=desc)
            if key is not None:
                res.violation('viewer-histogram-equals-definition', key, desc, obs, exp)


def confirm_vhist(c):
    core.reset_globals()
    key, obs, exp, _ = eval_vhist(c['shape'], c['palette'], c['sel'], c['log'], c['range'], c['bins'])
    return key, obs, exp


P_FUNCS = ['maximum', 'minimum', 'mean', 'median', 'sum']


def profile_cases(tier):
    shapes = [(3, 4), (2, 3, 4)] if tier == 'quick' else [(3, 4), (4, 3), (2, 3, 4), (3, 2, 3), (2, 2, 2, 3)]
    sels = SEL_QUICK if tier == 'quick' else SEL_ALL
    return [['profile', list(shape), sel] for shape in shapes for sel in sels]


def eval_profile(shape, pal, sel, xaxis, func):
    from glue.core import DataCollection
    from glue.core.subset import SliceSubsetState
    from glue.viewers.profile.state import ProfileViewerState, ProfileLayerState
    d, arrs = build(shape, pal)
    dc = DataCollection([d])
    mask = sel_mask(sel, tuple(shape), arrs)
    state = make_state(sel, d, arrs)
    if sel == 'none':
        layer = d
    else:
        layer = dc.new_subset_group(subset_state=state, label='s').subsets[0]
    vs = ProfileViewerState()
    ls = ProfileLayerState(layer=layer, viewer_state=vs)
    vs.layers.append(ls)
    ls.attribute = d.id['x']
    vs.function = func
    vs.x_att = d.pixel_component_ids[xaxis]
    axes = tuple(i for i in range(len(shape)) if i != xaxis)
    exp, anykeep = oracle_stat(arrs['x'], mask, None, axes, func, None, True, False)
    if np.all(np.isnan(exp)):
        e_x, e_y = np.zeros(0), np.zeros(0)
    else:
        e_x, e_y = np.arange(shape[xaxis], dtype=float), exp
    cls = 'slice-subset' if isinstance(state, SliceSubsetState) else ('data' if sel == 'none' else 'subset')
    none_first = False
    try:
        prof = ls.profile
        if prof is None:
            # the first access after a state change can return None because updating the limits resets
            # the cache again (a viewer-state quirk outside C10); the artist simply asks again
            none_first = True
            prof = ls.profile
        if prof is None:
            return 'profile|%s|None' % cls, None, [e_x, e_y], anykeep, none_first
        gx, gy = prof
    except Exception as e:
        return 'profile|%s|%s' % (cls, type(e).__name__), repr(e), [e_x, e_y], anykeep, none_first
    bad = compare(gx, e_x)
    if bad is not None:
        return 'profile|%s|x-%s' % (cls, bad), [np.asarray(gx), np.asarray(gy)], [e_x, e_y], anykeep, none_first
    bad = compare(gy, e_y)
    if bad is not None:
        return 'profile|%s|y-%s' % (cls, bad), [np.asarray(gx), np.asarray(gy)], [e_x, e_y], anykeep, none_first
    return None, None, [e_x, e_y], anykeep, none_first


def do_profile(res, case, tier, pal):
    _, shape, sel = case
    for xaxis in range(len(shape)):
        for func in P_FUNCS:
            core.reset_globals()
            key, obs, exp, nontrivial, none_first = eval_profile(shape, pal, sel, xaxis, func)
            desc = dict(kind='profile', shape=shape, palette=pal, sel=sel, xaxis=xaxis, func=func)
            if none_first:
                res.count('profile_first_access_returned_None')
            res.case(sig=sig_of('p', shape, sel, xaxis, func) if nontrivial else None, sample=desc)
            if key is not None:
                res.violation('profile-equals-definition', key, desc, obs, exp)


def confirm_profile(c):
    core.reset_globals()
    key, obs, exp, _, _ = eval_profile(c['shape'], c['palette'], c['sel'], c['xaxis'], c['func'])
    return key, obs, exp


# =====================================================================================================
# driver
# =====================================================================================================
DO = dict(stat=do_stat, hist=do_hist, vhist=do_vhist, profile=do_profile)
CONFIRM = dict(stat=confirm_stat, hist=confirm_hist, vhist=confirm_vhist, profile=confirm_profile)


def work(shard):
    tier, pal, cases = shard
    core.bind()
    res = core.Result()
    for c in cases:
        DO[c[0]](res, c, tier, pal)
    return res


def all_cases(tier):
    return stat_cases(tier) + hist_cases(tier) + vhist_cases(tier) + profile_cases(tier)


RULE = ('complete Cartesian products (see product_dimensions).  An evaluation is one real call compared with the '
        'numpy definition.  non-trivial = at least one element qualifies (selected, passes finite/positive, or '
        'falls inside the histogram range); trivial all-NaN / all-zero results are executed and checked too but '
        'not counted as distinct.')

ASSUMPTIONS = [
    'finite=False is exercised on NaN-free palettes only (+-inf kept): the statement does not decide whether '
    'unfiltered NaN inputs propagate (DESIGN C10 calibration a)',
    'views are None, tuples (length 1..ndim) of positive-step, non-empty slices, or full-length tuples with exactly '
    'one integer (dimension-dropping: result shape and axes are those of the viewed array); several integers, '
    'Ellipsis, boolean and fancy views are outside the statement\'s domain (calibration b); empty views excluded '
    'because the shape of a statistic over zero elements along a kept axis is not documented',
    'axis is None, an int, or a non-empty strictly increasing tuple (including the all-axes tuple); the empty tuple '
    'and negative axes are not exercised',
    'attributes: float (with NaN/inf/negatives/zero), integer dtype, and a pixel coordinate (broadcast array); '
    'categorical and datetime attributes are not exercised',
    'histograms: cases in which a selected in-range value lies exactly on an INTERIOR bin edge are excluded (the '
    'statement does not fix which neighbour bin owns it; glue puts it in the lower bin, numpy in the upper one); '
    'values equal to the two range ends are in the domain (closed range); degenerate ranges (min == max), log '
    'ranges with a non-positive end, NaN weights, datetime and categorical axes and random_subset are excluded',
    'HistogramLayerState.histogram is compared with cumulative=False, normalize=False (counts); '
    'ProfileLayerState.profile is read a second time when the first access after a state change returns None '
    '(cache reset by the limits update; counted in profile_first_access_returned_None, not a C10 matter)',
    'array sizes, value palettes, ranges and bin counts are bounded as listed in product_dimensions',
]


def run(tier):
    t0 = time.time()
    pal = core.seed() % 3
    cases = core.rotate(all_cases(tier))
    total = core.run_shards(work, [(tier, pal, s) for s in core.split(cases, core.jobs() * 8)])
    fam = {}
    for c in cases:
        fam[c[0]] = fam.get(c[0], 0) + 1
    dims = dict(outer_cases_per_family=fam,
                stat=dict(inner='9 (statistic,percentile) x finite{T,F} x positive{F,T} x n_chunk_max '
                                '{default,1,2,3,5,size-1,size} on chunk-eligible cases',
                          shapes=sorted({tuple(c[1]) for c in cases if c[0] == 'stat'}),
                          attributes=['main', 'pix', 'int'],
                          selections=SEL_QUICK if tier == 'quick' else SEL_ALL,
                          percentiles=[0, 30, 50, 100]),
                hist=dict(shapes=H_SHAPES, selections=H_SELS, linear_ranges=R_LIN, log_ranges=R_LOG,
                          bins_1d=[1, 2, 3, 4, 5], bins_2d_max=3 if tier == 'quick' else 5,
                          weights=[False, True]),
                value_palette=pal)
    return core.finish(PROP, tier, total, 'exploration', RULE, t0, coverage=dict(product_dimensions=dims),
                       confirm=confirm, assumptions=ASSUMPTIONS)


def confirm(v, verbose=False):
    c = v['case']
    key, obs, exp = CONFIRM[c['kind']](c)
    if key is not None and c.get('prefix'):
        key += '|after-earlier-requests'
    if verbose:
        print('  case    ', core._clip(c))
        print('  observed', core._clip(obs), ' key=%s' % key)
        print('  expected', core._clip(exp))
    return key == v['key']


def replay(doc):
    core.bind()
    return confirm(doc, verbose=True)
