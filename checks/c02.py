"""C02 - a saved session restores to an observationally equivalent session.

Mode I (compositional, bounded-exhaustive).  A *case* is a JSON descriptor of a
whole session (datasets x component kinds x coordinates x links x key joins x
subset groups built from a state-expression tree x styles x meta x storage
x include_data x container).  The worker builds the session with the public
API, observes it, runs  GlueSerializer(...).dumps() -> GlueUnSerializer.loads(...)
.object('__main__')  twice and compares the observations.

Oracle (DESIGN C02): save may raise (loud: allowed, counted); a load-time
exception after a successful save, or any observable difference between the
original and the restored session (labels, component order, values, linked
attributes, subset masks, styles, serialisable meta, key joins, groups) is a
violation; the second round trip must be equal to the first (idempotence).

Every SubsetState / Roi / LinkCollection subclass importable from glue is
looked up by introspection; a class without a factory in the tables below is
reported under coverage['classes_without_factory'].
"""
import os
import time
import shutil
import operator
import itertools

import numpy as np

from mc import core

PROP = 'C02'
SCRATCH_ROOT = '/dev/shm'


# --------------------------------------------------------------------------
# module-level functions usable in links / pretransforms (saved by reference)
# --------------------------------------------------------------------------
def double(x):
    return x * 2


def halve(x):
    return x / 2


def add2(a, b):
    return a + b * 10


def pair_fwd(a, b):
    return a + b, a - b


def pair_bwd(s, d):
    return (s + d) / 2, (s - d) / 2


def swap_pre(x, y):
    return y, x


# --------------------------------------------------------------------------
# value palettes (VERIF_SEED picks one; all three are validated silent)
# --------------------------------------------------------------------------
MULT = [3, 5, 2, 4, 6, 1]


def col(n, j, p):
    """Deterministic small-integer valued float column j of length n, palette p."""
    return ((np.arange(n) * MULT[j % 6] + 2 * p + j) % 7).astype(float)


SHAPES = {'tab': (6,), 'tab2': (4,), 'img': (3, 4), 'img2': (3, 4), 'cube': (2, 3, 4),
          'k1': (4,), 'k2': (2, 3), 'k3': (2, 2, 3)}
NUMERIC = {'tab': ['x', 'y', 'z'], 'tab2': ['a', 'b', 'e'], 'img': ['v', 'u'], 'img2': ['w2'],
           'cube': ['q', 'r'], 'k1': ['n0'], 'k2': ['n0'], 'k3': ['n0']}
DEFAULT_KINDS = {'tab': ['int', 'nan', 'cat', 'cat2', 'dt', 'bin', 'fn', 'par', 'units'],
                 'tab2': ['int', 'cat', 'units'], 'img': [], 'img2': [], 'cube': [],
                 'k1': [], 'k2': [], 'k3': []}
ALL_KINDS = ['int', 'nan', 'cat', 'cat2', 'dt', 'bin', 'fn', 'par', 'units']
CATS = ['a', 'b', 'c']
CATS2 = ['u', 'v']

STYLES = {
    'default': {},
    's1': dict(color='#123456', alpha=0.25, linewidth=2.5, linestyle='dashed', marker='s', markersize=7),
    's2': dict(color='red', alpha=1.0, linewidth=0.5, linestyle='dotted', marker='^', markersize=1),
    's3': dict(color='0.35', alpha=0.6, linestyle='dash-dot', marker='+', markersize=12.5),
    's4': dict(color='#ABCDEF', linestyle='none', linewidth=3, preferred_cmap='viridis'),
    # boundary values that are falsy in Python (a loader that goes through `value or default` loses them)
    's5': dict(color='#000000', alpha=0.0, linewidth=0, markersize=0),
}
METAS = {
    'none': {},
    'm1': {'a': 1, 'b': 'text', 'c': 2.5, 'flag': True},
    'm2': {'list': [1, 2, 3], 'nested': [[1, 2], [3, 4]], 'none': None, 'neg': -7},
    'm3': {'keep': 'yes', 'obj': '<<object>>', 'arr': '<<ndarray>>'},   # object() is not serialisable: may be dropped
    # falsy and boundary values
    'm4': {'zero': 0, 'fzero': 0.0, 'empty': '', 'no': False, 'nolist': [], 'st': 'st__not-a-marker?'},
}


class Unserialisable(object):
    pass


def affine_matrix(ndim):
    if ndim == 1:
        return np.array([[2., 1.], [0., 1.]])
    if ndim == 2:
        return np.array([[2., 0.5, 1.], [0., 3., 2.], [0., 0., 1.]])
    return np.array([[2., 0., 0.5, 1.], [0., 3., 0., 2.], [0., 1., 1.5, 3.], [0., 0., 0., 1.]])


# --------------------------------------------------------------------------
# scratch files for file-backed data
# --------------------------------------------------------------------------
_scratch = {'dir': None}


def scratch_dir():
    if _scratch['dir'] is None:
        d = os.path.join(SCRATCH_ROOT, 'c02-%d' % os.getpid())
        os.makedirs(d, exist_ok=True)
        _scratch['dir'] = d
    return _scratch['dir']


def scratch_cleanup():
    d = _scratch['dir']
    if d is not None:
        shutil.rmtree(d, ignore_errors=True)
        _scratch['dir'] = None


# --------------------------------------------------------------------------
# building a session from a descriptor
# --------------------------------------------------------------------------
class World(object):
    pass


def _base_columns(name, p):
    shape = SHAPES[name]
    n = int(np.prod(shape))
    off = {'tab': 0, 'tab2': 1, 'img': 2, 'img2': 3, 'cube': 4, 'k1': 0, 'k2': 1, 'k3': 2}[name]
    return [(lab, col(n, j + off, p).reshape(shape)) for j, lab in enumerate(NUMERIC[name])]


def make_coords(kind, ndim):
    from glue.core.coordinates import IdentityCoordinates, AffineCoordinates
    if kind in (None, 'none'):
        return None
    if kind == 'identity':
        return IdentityCoordinates(n_dim=ndim)
    if kind == 'affine':
        return AffineCoordinates(affine_matrix(ndim), units=['m', 's', 'Hz'][:ndim],
                                 labels=['wx', 'wy', 'wz'][:ndim])
    raise ValueError(kind)


def build_dataset(name, opts, p):
    """One dataset, via the public API only."""
    from glue.core import Data
    from glue.core.component import Component, CategoricalComponent, DateTimeComponent
    from glue.core.component_id import ComponentID
    from glue.core.component_link import ComponentLink
    from glue.core.link_helpers import lengths_to_volume
    from glue.core.parse import ParsedCommand, ParsedComponentLink
    shape = SHAPES[name]
    n = int(np.prod(shape))
    kinds = opts.get('kinds')
    if kinds is None:
        kinds = DEFAULT_KINDS[name]
    backing = opts.get('backing', 'mem')
    cols = _base_columns(name, p)
    extra = []
    if 'int' in kinds:
        extra.append(('i' if name != 'tab2' else 'j',
                      ((np.arange(n) * 2 + p) % 4).astype(int).reshape(shape)))
    if 'nan' in kinds:
        w = col(n, 4, p).reshape(shape).copy()
        w.flat[1 % n] = np.nan
        extra.append(('w', w))
    catcols = []
    if 'cat' in kinds:
        lab = 'c' if name != 'tab2' else 'kc'
        catcols.append((lab, np.array([CATS[(k + p) % 3] for k in range(n)]).reshape(shape)))
    if 'cat2' in kinds:
        catcols.append(('k', np.array([CATS2[(k * k + p) % 2] for k in range(n)]).reshape(shape)))

    if backing == 'mem':
        d = Data(label=opts.get('label', name), coords=make_coords(opts.get('coords'), len(shape)))
        for lab, arr in cols + extra:
            d.add_component(Component(arr), lab)
        for lab, arr in catcols:
            if lab == 'k':
                # explicit category order that is NOT the sorted default (a permutation of the values present)
                order = sorted(set(arr.ravel().tolist()))[::-1]
                d.add_component(CategoricalComponent(arr, categories=np.array(order)), lab)
            else:
                d.add_component(CategoricalComponent(arr), lab)
    else:
        d = load_file_backed(name, backing, cols + extra, catcols, p)
        if opts.get('coords') not in (None, 'none'):
            raise ValueError('coords option is for in-memory data')
    if 'dt' in kinds:
        t = (np.datetime64('2020-01-01') + (np.arange(n) * 3 + p).astype('timedelta64[D]')).reshape(shape)
        d.add_component(DateTimeComponent(t), 't')
    if 'units' in kinds:
        first = NUMERIC[name][0]
        d.get_component(d.id[first]).units = 'm' if name != 'tab2' else 'km'
    num = [d.id[lab] for lab in NUMERIC[name] if d.find_component_id(lab) is not None]
    if 'bin' in kinds:
        d['bin'] = num[0] * 2 + num[-1]
    if 'fn' in kinds:
        if len(num) >= 3:
            link = ComponentLink(num[:3], ComponentID('fn'), using=lengths_to_volume)
        else:
            link = ComponentLink(num[:1], ComponentID('fn'), using=double)
        d.add_component_link(link)
    if 'par' in kinds:
        refs = {'p0': num[0], 'p1': num[-1]}
        link = ParsedComponentLink(ComponentID('par'), ParsedCommand('{p0} * 3 - {p1}', refs))
        d.add_component_link(link)
    for old_label, new_label in sorted(opts.get('rename', {}).items()):
        d.id[old_label].label = new_label
    if opts.get('reorder'):
        order = list(d.components)
        main = [c for c in order if c in d.main_components or c in d.derived_components]
        rest = [c for c in order if c not in main]
        if opts.get('reorder') == 'all':
            d.reorder_components(order[::-1])          # coordinate components out of axis order as well
        else:
            d.reorder_components(rest + main[::-1])
    for k, v in STYLES[opts.get('style', 'default')].items():
        setattr(d.style, k, v)
    for k, v in METAS[opts.get('meta', 'none')].items():
        if v == '<<object>>':
            v = Unserialisable()
        elif v == '<<ndarray>>':
            v = np.arange(3)
        d.meta[k] = v
    return d


def load_file_backed(name, backing, cols, catcols, p):
    """Write the stored columns with glue's exporters and read the file back
    through load_data, so that the components carry a LoadLog."""
    from glue.core import Data
    from glue.core.component import Component, CategoricalComponent
    from glue.core.data_factories import load_data
    import glue.core.data_exporters as de
    de.setup()
    tmp = Data(label=name)
    for lab, arr in cols:
        tmp.add_component(Component(arr), lab)
    for lab, arr in catcols:
        tmp.add_component(CategoricalComponent(arr), lab)
    ext = {'csv': 'csv', 'fitstable': 'fits', 'fits': 'fits', 'hdf5': 'hdf5', 'votable': 'xml'}[backing]
    sub = os.path.join(scratch_dir(), '%s-p%d' % (backing, p))
    os.makedirs(sub, exist_ok=True)
    path = os.path.join(sub, '%s.%s' % (name, ext))
    if not os.path.exists(path):
        if backing == 'csv':
            from glue.core.data_exporters.astropy_table import csv_exporter as w
        elif backing == 'fitstable':
            from glue.core.data_exporters.astropy_table import fits_exporter as w
        elif backing == 'votable':
            from glue.core.data_exporters.astropy_table import votable_exporter as w
        elif backing == 'fits':
            from glue.core.data_exporters.gridded_fits import fits_writer as w
        else:
            from glue.core.data_exporters.hdf5 import hdf5_writer as w
        if backing == 'fits':
            w(path, tmp, components=[tmp.id[cols[0][0]]])
        else:
            w(path, tmp)
    d = load_data(path)
    if isinstance(d, list):
        if len(d) != 1:
            raise ValueError('expected one dataset from %s, got %d' % (path, len(d)))
        d = d[0]
    if backing == 'fits':
        # the FITS reader names the component after the HDU (upper case): rename through the public API
        main = [c for c in d.main_components]
        if len(main) != 1:
            raise ValueError('expected one component from %s' % path)
        main[0].label = cols[0][0]
    d.label = name
    return d


# ---- links ---------------------------------------------------------------
def _celestial(clsname):
    def make(W):
        import glue.plugins.coordinate_helpers.link_helpers as m
        cls = getattr(m, clsname)
        t, t2 = W.d['tab'], W.d['tab2']
        if clsname == 'GalactocentricToGalactic':
            return cls(cids1=[t.id['x'], t.id['y'], t.id['z']], cids2=[t2.id['a'], t2.id['b'], t2.id['e']],
                       data1=t, data2=t2)
        return cls(cids1=[t.id['x'], t.id['y']], cids2=[t2.id['a'], t2.id['b']], data1=t, data2=t2)
    return make


def _mk_links():
    from glue.core.component_link import ComponentLink
    from glue.core import link_helpers as lh

    def T(W):
        return W.d['tab'], W.d['tab2']

    L = {}
    # name: (class name covered, datasets needed, attribute footprint, factory)
    L['ComponentLink:identity'] = ('ComponentLink', ['tab', 'tab2'], {'x', 'a'},
                                   lambda W: ComponentLink([T(W)[0].id['x']], T(W)[1].id['a']))
    L['ComponentLink:func+inverse'] = ('ComponentLink', ['tab', 'tab2'], {'x', 'a'},
                                       lambda W: ComponentLink([T(W)[0].id['x']], T(W)[1].id['a'],
                                                               using=double, inverse=halve))
    L['ComponentLink:2->1'] = ('ComponentLink', ['tab', 'tab2'], {'x', 'y', 'b'},
                               lambda W: ComponentLink([T(W)[0].id['x'], T(W)[0].id['y']], T(W)[1].id['b'],
                                                       using=add2))
    L['ComponentLink:3->1'] = ('ComponentLink', ['tab', 'tab2'], {'x', 'y', 'z', 'e'},
                               lambda W: ComponentLink([T(W)[0].id['x'], T(W)[0].id['y'], T(W)[0].id['z']],
                                                       T(W)[1].id['e'], using=lh.lengths_to_volume))
    L['ComponentLink:lambda'] = ('ComponentLink', ['tab', 'tab2'], {'y', 'b'},
                                 lambda W: ComponentLink([T(W)[0].id['y']], T(W)[1].id['b'],
                                                         using=lambda v: v + 1))
    L['LinkSame'] = ('LinkSame', ['tab', 'tab2'], {'x', 'a'},
                     lambda W: lh.LinkSame(T(W)[0].id['x'], T(W)[1].id['a']))
    L['LinkSame:cross-y'] = ('LinkSame', ['tab', 'tab2'], {'y', 'b'},
                             lambda W: lh.LinkSame(T(W)[0].id['y'], T(W)[1].id['b']))
    L['LinkTwoWay'] = ('LinkTwoWay', ['tab', 'tab2'], {'y', 'b'},
                       lambda W: lh.LinkTwoWay(T(W)[0].id['y'], T(W)[1].id['b'], double, halve))
    L['LinkSameWithUnits'] = ('LinkSameWithUnits', ['tab', 'tab2'], {'x', 'a'},
                              lambda W: lh.LinkSameWithUnits(T(W)[0].id['x'], T(W)[1].id['a']))
    L['MultiLink:1-1'] = ('MultiLink', ['tab', 'tab2'], {'z', 'e'},
                          lambda W: lh.MultiLink([T(W)[0].id['z']], [T(W)[1].id['e']],
                                                 forwards=double, backwards=halve))
    L['MultiLink:2-2'] = ('MultiLink', ['tab', 'tab2'], {'x', 'y', 'a', 'b'},
                          lambda W: lh.MultiLink([T(W)[0].id['x'], T(W)[0].id['y']],
                                                 [T(W)[1].id['a'], T(W)[1].id['b']],
                                                 forwards=pair_fwd, backwards=pair_bwd))
    L['LinkAligned'] = ('LinkAligned', ['img', 'img2'], {'pix'},
                        lambda W: lh.LinkAligned(W.d['img'], W.d['img2']))
    L['LinkSame:pixels'] = ('LinkSame', ['img', 'img2'], {'pix'},
                            lambda W: [l for j in range(2) for l in [lh.LinkSame(W.d['img'].pixel_component_ids[j],
                                                                              W.d['img2'].pixel_component_ids[j])]])
    L['JoinLink'] = ('JoinLink', ['tab', 'tab2'], {'i', 'j'},
                     lambda W: lh.JoinLink(cids1=[T(W)[0].id['i']], cids2=[T(W)[1].id['j']],
                                           data1=T(W)[0], data2=T(W)[1]))
    L['LinkCollection:empty'] = ('LinkCollection', ['tab', 'tab2'], set(),
                                 lambda W: lh.LinkCollection(data1=T(W)[0], data2=T(W)[1],
                                                             cids1=[T(W)[0].id['x']], cids2=[T(W)[1].id['a']]))
    for cn in ['Galactic_to_FK5', 'FK4_to_FK5', 'ICRS_to_FK5', 'Galactic_to_FK4', 'ICRS_to_FK4',
               'ICRS_to_Galactic']:
        L[cn] = (cn, ['tab', 'tab2'], {'x', 'y', 'a', 'b'}, _celestial(cn))
    L['GalactocentricToGalactic'] = ('GalactocentricToGalactic', ['tab', 'tab2'],
                                     {'x', 'y', 'z', 'a', 'b', 'e'}, _celestial('GalactocentricToGalactic'))

    def offset(W):
        from glue.plugins.wcs_autolinking.wcs_autolinking import OffsetLink
        i1, i2 = W.d['img'], W.d['img2']
        return OffsetLink(data1=i1, data2=i2, cids1=i1.pixel_component_ids, cids2=i2.pixel_component_ids,
                          offsets=np.array([1., 2.]))

    def affine(W):
        from glue.plugins.wcs_autolinking.wcs_autolinking import AffineLink
        i1, i2 = W.d['img'], W.d['img2']
        return AffineLink(data1=i1, data2=i2, cids1=i1.pixel_component_ids, cids2=i2.pixel_component_ids,
                          matrix=np.array([[1., 0., 1.], [0., 1., 2.], [0., 0., 1.]]))
    L['OffsetLink'] = ('OffsetLink', ['img', 'img2'], {'pix'}, offset)
    L['AffineLink'] = ('AffineLink', ['img', 'img2'], {'pix'}, affine)
    return L


# link helper classes that are deliberately not instantiated, with the reason
LINK_EXCLUDED = {
    'BaseMultiLink': 'abstract (forwards/backwards raise NotImplementedError)',
    'BaseCelestialMultiLink': 'abstract (frame_in/frame_out are None)',
    'WCSLink': 'needs astropy WCS coordinates; the property domain is None/Identity/Affine coordinates',
    'FunctionalLinkCollection': 'class object created inside a function, not a module-level class',
    'ManualLinkCollection': 'does not derive from LinkCollection; __init__ raises TypeError (cannot be built)',
}

JOINS = {
    # name: (self dataset, other dataset, cid(s) of self, cid(s) of other)
    '1-1': ('tab', 'tab2', 'i', 'j'),
    'n-n': ('tab', 'tab2', ('i', 'x'), ('j', 'a')),
    '1-n': ('tab', 'tab2', 'i', ('j', 'a')),
    'n-1': ('tab', 'tab2', ('i', 'x'), 'j'),
    'cat': ('tab', 'tab2', 'c', 'kc'),
}


# ---- subset state leaves ---------------------------------------------------
def _roi(name):
    """2-d ROI factories (regions chosen to cut the 0..6 value lattice non-trivially)."""
    from glue.core import roi as R
    if name == 'RectangularROI':
        return R.RectangularROI(0.5, 4.5, 0.5, 5.5)
    if name == 'RectangularROI:theta':
        return R.RectangularROI(0.5, 4.5, 1.5, 4.5, theta=0.6)
    if name == 'RectangularROI:undefined':
        return R.RectangularROI()
    if name == 'RangeROI':
        return R.RangeROI('y', 1.5, 4.5)
    if name == 'XRangeROI':
        return R.XRangeROI(0.5, 3.5)
    if name == 'YRangeROI':
        return R.YRangeROI(1.5, 5.5)
    if name == 'CircularROI':
        return R.CircularROI(2.5, 3.0, 2.3)
    if name == 'CircularAnnulusROI':
        return R.CircularAnnulusROI(3.0, 3.0, 1.2, 3.4)
    if name == 'EllipticalROI':
        return R.EllipticalROI(3.0, 3.0, 3.2, 1.3)
    if name == 'EllipticalROI:theta':
        return R.EllipticalROI(3.0, 3.0, 3.2, 1.3, theta=0.8)
    if name == 'PolygonalROI':
        return R.PolygonalROI([0.5, 5.5, 3.0], [0.5, 1.5, 6.5])
    if name == 'Path':
        return R.Path([0.5, 5.5, 3.0], [0.5, 1.5, 6.5])
    if name == 'VertexROIBase':
        return R.VertexROIBase([0.5, 5.5, 3.0], [0.5, 1.5, 6.5])
    if name == 'PointROI':
        return R.PointROI(1.0, 2.0)
    if name == 'Roi':
        return R.Roi()
    if name == 'CategoricalROI':
        return R.CategoricalROI(['a', 'c'])
    if name == 'Projected3dROI':
        return R.Projected3dROI(R.RectangularROI(0.5, 4.5, 0.5, 5.5), PROJ)
    if name == 'Projected3dROI:circle':
        return R.Projected3dROI(R.CircularROI(2.5, 3.0, 2.3), PROJ)
    if name == 'Projected3dROI:polygon':
        return R.Projected3dROI(R.PolygonalROI([0.5, 5.5, 3.0], [0.5, 1.5, 6.5]), PROJ)
    raise KeyError(name)


PROJ = [[1., 0., 0.5, 0.], [0., 1., -0.25, 0.5], [0., 0., 1., 0.], [0., 0., 0., 1.]]
ROI2D = ['RectangularROI', 'RectangularROI:theta', 'RectangularROI:undefined', 'RangeROI', 'XRangeROI',
         'YRangeROI', 'CircularROI', 'CircularAnnulusROI', 'EllipticalROI', 'EllipticalROI:theta',
         'PolygonalROI', 'Path', 'VertexROIBase', 'PointROI', 'Roi', 'CategoricalROI', 'Projected3dROI']
ROI3D = ['Projected3dROI', 'Projected3dROI:circle', 'Projected3dROI:polygon']


def _pre(name):
    from glue.core import roi_pretransforms as P
    if name is None:
        return None
    if name == 'RadianTransform':
        return P.RadianTransform(['x'])
    if name == 'RadianTransform:xy':
        return P.RadianTransform(['x', 'y'])
    if name == 'RadianTransform:y':
        return P.RadianTransform(['y'])
    if name == 'RadianTransform:none':
        return P.RadianTransform([])          # the constructor default: no axis is converted
    if name == 'RadianTransform:none>FullSphere':
        return P.RadianTransform([], next_transform=P.FullSphereLongitudeTransform())
    if name == 'FullSphere>RadianTransform:y':
        return P.FullSphereLongitudeTransform(next_transform=P.RadianTransform(['y']))
    if name == 'FullSphereLongitudeTransform':
        return P.FullSphereLongitudeTransform()
    if name == 'RadianTransform>FullSphere':
        return P.RadianTransform(['x'], next_transform=P.FullSphereLongitudeTransform())
    if name == 'ProjectionMplTransform':
        return P.ProjectionMplTransform('rectilinear', [0, 8], [0, 8], 'linear', 'linear')
    if name == 'function':
        return swap_pre
    raise KeyError(name)


def _pre_roi(pre):
    """A rectangle in the coordinates the pretransform produces."""
    from glue.core.roi import RectangularROI
    if pre in ('RadianTransform', 'RadianTransform>FullSphere'):
        return RectangularROI(0.01, 0.06, 0.5, 5.5)
    if pre == 'RadianTransform:xy':
        return RectangularROI(0.01, 0.06, 0.01, 0.08)
    if pre in ('RadianTransform:y', 'FullSphere>RadianTransform:y'):
        return RectangularROI(0.5, 4.5, 0.01, 0.08)
    if pre == 'ProjectionMplTransform':
        return RectangularROI(0.1, 0.6, 0.1, 0.7)
    return RectangularROI(0.5, 4.5, 0.5, 5.5)


PRETRANSFORMS = ['RadianTransform', 'RadianTransform:xy', 'RadianTransform:y', 'RadianTransform:none',
                 'FullSphereLongitudeTransform', 'RadianTransform>FullSphere', 'RadianTransform:none>FullSphere',
                 'FullSphere>RadianTransform:y', 'ProjectionMplTransform', 'function']


def _mk_leaves():
    """name -> (SubsetState class name, datasets needed, companion dataset, factory(W))."""
    from glue.core import subset as S
    from glue.core.parse import ParsedSubsetState, ParsedCommand
    from glue.core.roi import CategoricalROI
    L = {}

    def tab(W):
        return W.d['tab']

    def img(W):
        return W.d['img']

    def cube(W):
        return W.d['cube']

    L['SubsetState'] = ('SubsetState', ['tab'], 'tab', lambda W: S.SubsetState())
    # --- N-d ROI states
    L['RoiSubsetStateNd:2'] = ('RoiSubsetStateNd', ['tab'], 'tab',
                               lambda W: S.RoiSubsetStateNd([tab(W).id['x'], tab(W).id['y']],
                                                            _roi('RectangularROI')))
    L['RoiSubsetStateNd:3'] = ('RoiSubsetStateNd', ['tab'], 'tab',
                               lambda W: S.RoiSubsetStateNd([tab(W).id['x'], tab(W).id['y'], tab(W).id['z']],
                                                            _roi('Projected3dROI')))
    L['RoiSubsetStateNd:pix'] = ('RoiSubsetStateNd', ['img'], 'img',
                                 lambda W: S.RoiSubsetStateNd(list(img(W).pixel_component_ids)[::-1],
                                                              _roi('CircularROI')))
    for r in ROI2D:
        L['RoiSubsetState[%s]' % r] = ('RoiSubsetState', ['tab'], 'tab',
                                       (lambda r: lambda W: S.RoiSubsetState(tab(W).id['x'], tab(W).id['y'],
                                                                             _roi(r)))(r))
    L['RoiSubsetState[CategoricalROI]:cat-att'] = ('RoiSubsetState', ['tab'], 'tab',
                                                   lambda W: S.RoiSubsetState(tab(W).id['c'], tab(W).id['y'],
                                                                              _roi('CategoricalROI')))
    for pre in PRETRANSFORMS:
        L['RoiSubsetState+%s' % pre] = ('RoiSubsetState', ['tab'], 'tab',
                                        (lambda pre: lambda W: S.RoiSubsetState(
                                            tab(W).id['x'], tab(W).id['y'], _pre_roi(pre), _pre(pre)))(pre))
    L['RoiSubsetState:pix'] = ('RoiSubsetState', ['img'], 'img',
                               lambda W: S.RoiSubsetState(img(W).pixel_component_ids[1],
                                                          img(W).pixel_component_ids[0],
                                                          _roi('EllipticalROI:theta')))
    L['RoiSubsetState:pix-cube'] = ('RoiSubsetState', ['cube'], 'cube',
                                    lambda W: S.RoiSubsetState(cube(W).pixel_component_ids[2],
                                                               cube(W).pixel_component_ids[1],
                                                               _roi('PolygonalROI')))
    L['RoiSubsetState:world'] = ('RoiSubsetState', ['img'], 'img',
                                 lambda W: S.RoiSubsetState(img(W).id['v'], img(W).id['u'],
                                                            _roi('CircularAnnulusROI')))
    for r in ROI3D:
        L['RoiSubsetState3d[%s]' % r] = ('RoiSubsetState3d', ['tab'], 'tab',
                                         (lambda r: lambda W: S.RoiSubsetState3d(
                                             tab(W).id['x'], tab(W).id['y'], tab(W).id['z'], _roi(r)))(r))
    L['RoiSubsetState3d:pix'] = ('RoiSubsetState3d', ['cube'], 'cube',
                                 lambda W: S.RoiSubsetState3d(cube(W).pixel_component_ids[2],
                                                              cube(W).pixel_component_ids[1],
                                                              cube(W).pixel_component_ids[0],
                                                              _roi('Projected3dROI:circle')))
    L['RoiSubsetState3d+function'] = ('RoiSubsetState3d', ['tab'], 'tab',
                                       lambda W: S.RoiSubsetState3d(tab(W).id['x'], tab(W).id['y'], tab(W).id['z'],
                                                                    _roi('Projected3dROI'), triple_pre))
    # --- categorical
    L['CategoricalROISubsetState'] = ('CategoricalROISubsetState', ['tab'], 'tab',
                                      lambda W: S.CategoricalROISubsetState(tab(W).id['c'],
                                                                            CategoricalROI(['a', 'c'])))
    L['CategoricalROISubsetState:from_range'] = (
        'CategoricalROISubsetState', ['tab'], 'tab',
        lambda W: S.CategoricalROISubsetState.from_range(np.array(CATS), tab(W).id['c'], 0.5, 2.2))
    L['CategoricalROISubsetState2D'] = ('CategoricalROISubsetState2D', ['tab'], 'tab',
                                        lambda W: S.CategoricalROISubsetState2D(
                                            {'a': ['u'], 'b': ['u', 'v']}, tab(W).id['c'], tab(W).id['k']))
    L['CategoricalROISubsetState2D:sets'] = ('CategoricalROISubsetState2D', ['tab'], 'tab',
                                             lambda W: S.CategoricalROISubsetState2D(
                                                 {'a': {'v'}, 'c': {'u', 'v'}}, tab(W).id['c'], tab(W).id['k']))
    L['CategoricalMultiRangeSubsetState'] = ('CategoricalMultiRangeSubsetState', ['tab'], 'tab',
                                             lambda W: S.CategoricalMultiRangeSubsetState(
                                                 {'a': [(0.5, 2.5), (4.5, 6.5)], 'c': [(1.5, 4.5)]},
                                                 tab(W).id['c'], tab(W).id['y']))
    L['CategorySubsetState'] = ('CategorySubsetState', ['tab'], 'tab',
                                lambda W: S.CategorySubsetState(tab(W).id['c'], [0, 2]))
    # --- ranges
    L['RangeSubsetState'] = ('RangeSubsetState', ['tab'], 'tab',
                             lambda W: S.RangeSubsetState(1.5, 4.5, tab(W).id['x']))
    L['RangeSubsetState:int-bounds'] = ('RangeSubsetState', ['tab'], 'tab',
                                        lambda W: S.RangeSubsetState(1, 4, tab(W).id['y']))
    L['RangeSubsetState:npfloat'] = ('RangeSubsetState', ['tab'], 'tab',
                                     lambda W: S.RangeSubsetState(np.float64(0.5), np.float32(3.5), tab(W).id['z']))
    L['RangeSubsetState:datetime'] = ('RangeSubsetState', ['tab'], 'tab',
                                      lambda W: S.RangeSubsetState(np.datetime64('2020-01-03'),
                                                                   np.datetime64('2020-01-12'), tab(W).id['t']))
    L['RangeSubsetState:derived'] = ('RangeSubsetState', ['tab'], 'tab',
                                     lambda W: S.RangeSubsetState(3.5, 11.5, tab(W).id['bin']))
    L['RangeSubsetState:image'] = ('RangeSubsetState', ['img'], 'img',
                                   lambda W: S.RangeSubsetState(1.5, 4.5, img(W).id['v']))
    L['MultiRangeSubsetState'] = ('MultiRangeSubsetState', ['tab'], 'tab',
                                  lambda W: S.MultiRangeSubsetState([(0.5, 1.5), (3.5, 5.5)], tab(W).id['x']))
    # --- composites used as leaves (the base class has op=None)
    L['CompositeSubsetState'] = ('CompositeSubsetState', ['tab'], 'tab',
                                 lambda W: S.CompositeSubsetState(tab(W).id['x'] > 2, tab(W).id['y'] < 4))
    L['OrState'] = ('OrState', ['tab'], 'tab', lambda W: S.OrState(tab(W).id['x'] > 4, tab(W).id['y'] < 2))
    L['AndState'] = ('AndState', ['tab'], 'tab', lambda W: S.AndState(tab(W).id['x'] > 1, tab(W).id['y'] < 5))
    L['XorState'] = ('XorState', ['tab'], 'tab', lambda W: S.XorState(tab(W).id['x'] > 2, tab(W).id['y'] < 4))
    L['InvertState'] = ('InvertState', ['tab'], 'tab', lambda W: S.InvertState(tab(W).id['x'] > 2))
    L['MultiOrState'] = ('MultiOrState', ['tab'], 'tab',
                         lambda W: S.MultiOrState([tab(W).id['x'] > 4, tab(W).id['y'] < 2, tab(W).id['z'] == 3]))
    # --- mask-like
    L['MaskSubsetState'] = ('MaskSubsetState', ['img'], 'img',
                            lambda W: S.MaskSubsetState((np.arange(12).reshape(3, 4) % 3) == 1,
                                                        img(W).pixel_component_ids))
    L['MaskSubsetState:1d'] = ('MaskSubsetState', ['tab'], 'tab',
                               lambda W: S.MaskSubsetState([True, False, True, True, False, False],
                                                           tab(W).pixel_component_ids))
    L['MaskSubsetState:other-cids'] = ('MaskSubsetState', ['img', 'tab'], 'tab',
                                       lambda W: S.MaskSubsetState((np.arange(49).reshape(7, 7) % 3) == 1,
                                                                   [tab(W).id['x'], tab(W).id['y']]))
    L['FloodFillSubsetState'] = ('FloodFillSubsetState', ['img'], 'img',
                                 lambda W: S.FloodFillSubsetState(img(W), img(W).id['v'], (1, 1), 1.6))
    L['FloodFillSubsetState:cube'] = ('FloodFillSubsetState', ['cube'], 'cube',
                                      lambda W: S.FloodFillSubsetState(cube(W), cube(W).id['q'], (0, 1, 1), 1.9))
    L['SliceSubsetState'] = ('SliceSubsetState', ['img'], 'img',
                             lambda W: S.SliceSubsetState(img(W), [slice(1, 3), slice(0, 4, 2)]))
    L['SliceSubsetState:short'] = ('SliceSubsetState', ['cube'], 'cube',
                                   lambda W: S.SliceSubsetState(cube(W), [slice(1, 2)]))
    L['SliceSubsetState:aligned'] = ('SliceSubsetState', ['img', 'img2'], 'img',
                                     lambda W: S.SliceSubsetState(img(W), [slice(None, 2), slice(1, None)]))
    L['PixelSubsetState'] = ('PixelSubsetState', ['img'], 'img', _pixel_state)
    L['ElementSubsetState'] = ('ElementSubsetState', ['tab'], 'tab',
                               lambda W: S.ElementSubsetState([0, 2, 5], tab(W)))
    L['ElementSubsetState:nodata'] = ('ElementSubsetState', ['tab'], 'tab',
                                      lambda W: S.ElementSubsetState([1, 3]))
    L['ElementSubsetState:ndarray'] = ('ElementSubsetState', ['img'], 'img',
                                       lambda W: S.ElementSubsetState(np.array([0, 5, 7, 11]), img(W)))
    L['ElementSubsetState:none'] = ('ElementSubsetState', ['tab'], 'tab',
                                    lambda W: S.ElementSubsetState(None, tab(W)))
    # --- inequalities
    for opn in ['gt', 'ge', 'lt', 'le', 'eq', 'ne']:
        L['InequalitySubsetState:%s' % opn] = (
            'InequalitySubsetState', ['tab'], 'tab',
            (lambda opn: lambda W: S.InequalitySubsetState(tab(W).id['x'], 3, getattr(operator, opn)))(opn))
    L['InequalitySubsetState:num-left'] = ('InequalitySubsetState', ['tab'], 'tab',
                                           lambda W: S.InequalitySubsetState(2.5, tab(W).id['y'], operator.lt))
    L['InequalitySubsetState:cid-cid'] = ('InequalitySubsetState', ['tab'], 'tab',
                                          lambda W: S.InequalitySubsetState(tab(W).id['x'], tab(W).id['y'],
                                                                            operator.gt))
    L['InequalitySubsetState:link'] = ('InequalitySubsetState', ['tab'], 'tab',
                                       lambda W: (tab(W).id['x'] + tab(W).id['y']) > 6)
    L['InequalitySubsetState:link-right'] = ('InequalitySubsetState', ['tab'], 'tab',
                                             lambda W: S.InequalitySubsetState(tab(W).id['z'],
                                                                               tab(W).id['x'] * 2, operator.le))
    L['InequalitySubsetState:str'] = ('InequalitySubsetState', ['tab'], 'tab',
                                      lambda W: tab(W).id['c'] == 'b')
    L['InequalitySubsetState:image'] = ('InequalitySubsetState', ['img'], 'img', lambda W: img(W).id['v'] > 2)
    L['InequalitySubsetState:cube'] = ('InequalitySubsetState', ['cube'], 'cube', lambda W: cube(W).id['q'] >= 3)
    L['InequalitySubsetState:world'] = ('InequalitySubsetState', ['img'], 'img',
                                        lambda W: img(W).world_component_ids[0] > 3
                                        if img(W).world_component_ids else img(W).pixel_component_ids[0] > 0)
    L['ParsedSubsetState'] = ('ParsedSubsetState', ['tab'], 'tab',
                              lambda W: ParsedSubsetState(ParsedCommand('{xx} > 2.5', {'xx': tab(W).id['x']})))
    return L


def triple_pre(x, y, z):
    return z, y, x


def _pixel_state(W):
    from glue.viewers.image.pixel_selection_subset_state import PixelSubsetState
    return PixelSubsetState(W.d['img'], [slice(1, 2), slice(2, 3)])


_tables = {}


def leaves():
    if 'leaves' not in _tables:
        core.bind()
        _tables['leaves'] = _mk_leaves()
    return _tables['leaves']


def links():
    if 'links' not in _tables:
        core.bind()
        _tables['links'] = _mk_links()
    return _tables['links']


def companion(W, ds):
    """A plain non-trivial inequality on dataset `ds` (the K of the nesting contexts)."""
    d = W.d[ds]
    return d.id[NUMERIC[ds][0]] > 2


def companion2(W, ds):
    d = W.d[ds]
    return d.id[NUMERIC[ds][-1]] <= 4


def build_state(W, expr):
    from glue.core import subset as S
    tag = expr[0]
    if tag == 'L':
        return leaves()[expr[1]][3](W)
    if tag == 'K':
        return companion(W, expr[1])
    if tag == 'K2':
        return companion2(W, expr[1])
    if tag == 'and':
        return S.AndState(build_state(W, expr[1]), build_state(W, expr[2]))
    if tag == 'or':
        return S.OrState(build_state(W, expr[1]), build_state(W, expr[2]))
    if tag == 'xor':
        return S.XorState(build_state(W, expr[1]), build_state(W, expr[2]))
    if tag == 'not':
        return S.InvertState(build_state(W, expr[1]))
    if tag == 'multior':
        return S.MultiOrState([build_state(W, e) for e in expr[1]])
    raise ValueError(expr)


def expr_leaves(expr):
    if expr[0] == 'L':
        return [expr[1]]
    if expr[0] in ('K', 'K2'):
        return []
    if expr[0] == 'multior':
        return [x for e in expr[1] for x in expr_leaves(e)]
    return [x for e in expr[1:] for x in expr_leaves(e)]


def build_world(case):
    """Construct the session described by `case` with the public API."""
    from glue.core import DataCollection
    p = case.get('palette', 0)
    W = World()
    W.d = {}
    W.order = []
    for name, opts in case['datasets']:
        W.d[name] = build_dataset(name, opts, p)
        W.order.append(name)
    W.dc = DataCollection([W.d[n] for n in W.order])
    for jn in case.get('joins', []):
        a, b, ca, cb = JOINS[jn]
        ca = tuple(ca) if isinstance(ca, (list, tuple)) else ca
        cb = tuple(cb) if isinstance(cb, (list, tuple)) else cb
        W.d[a].join_on_key(W.d[b], ca, cb)
    for ln in case.get('links', []):
        W.dc.add_link(links()[ln][3](W))
    for gi, g in enumerate(case.get('groups', [])):
        st = build_state(W, g['state'])
        grp = W.dc.new_subset_group(g.get('label') or None, st)
        for k, v in STYLES[g.get('style', 'default')].items():
            setattr(grp.style, k, v)
    if case.get('container') == 'app':
        from glue.core.application_base import Application
        W.main = Application(W.dc)
    else:
        W.main = W.dc
    return W


# --------------------------------------------------------------------------
# observation
# --------------------------------------------------------------------------
def digest(a):
    """JSON-able, NaN-aware rendering of an array result."""
    codes = getattr(a, 'codes', None)
    cats = getattr(a, 'categories', None)
    arr = np.asarray(a)
    kind = arr.dtype.kind
    if kind == 'f':
        vals = ['nan' if x != x else x for x in arr.ravel().tolist()]
    elif kind in 'Mm':
        vals = arr.ravel().astype(str).tolist()
    else:
        vals = arr.ravel().tolist()
    out = [kind, list(arr.shape), vals]
    if codes is not None and cats is not None:
        out.append(np.asarray(codes).ravel().tolist())
        out.append(np.asarray(cats).ravel().tolist())
    return out


def guarded(fn):
    try:
        return digest(fn())
    except Exception as e:
        return 'EXC:' + type(e).__name__


def mask_digest(fn):
    try:
        m = np.asarray(fn())
        if m.dtype != bool:
            return ['notbool', str(m.dtype), list(m.shape), m.ravel().tolist()]
        return [list(m.shape), m.ravel().astype(int).tolist()]
    except Exception as e:
        return 'EXC:' + type(e).__name__


def norm(v):
    if isinstance(v, (tuple, list)):
        return [norm(x) for x in v]
    if isinstance(v, np.generic):
        return v.item()
    return v


def style_digest(style):
    out = {}
    for a in style.DEFAULT_ATTS:
        v = getattr(style, a, None)
        if a == 'preferred_cmap' and v is not None:
            v = getattr(v, 'name', repr(v))
        out[a] = norm(v)
    return out


def serialisable(v):
    if v is None or isinstance(v, (str, bool, int, float)):
        return True
    if isinstance(v, list):
        return all(serialisable(x) for x in v)
    if isinstance(v, np.ndarray):
        return True
    return False


def meta_digest(meta, only_serialisable):
    out = {}
    for k, v in meta.items():
        if only_serialisable and not (isinstance(k, str) and serialisable(v)):
            continue
        if isinstance(v, np.ndarray):
            v = digest(v)
        out[str(k)] = norm(v) if not isinstance(v, Unserialisable) else '<<object>>'
    return out


def comp_kind(d, cid):
    """Coarse description of a component used in violation keys."""
    try:
        comp = d.get_component(cid)
    except Exception:
        return 'missing'
    name = type(comp).__name__
    link = getattr(comp, 'link', None)
    if name == 'DerivedComponent' and link is not None:
        name += '(%s)' % type(link).__name__
    if name == 'CoordinateComponent':
        name += '(%s,%s)' % ('world' if comp.world else 'pixel', type(d.coords).__name__)
    return name


def observe(main, original):
    """Everything the property speaks about, as plain JSON-able values.
    `original` selects whether unserialisable meta entries are filtered out (they may be dropped)."""
    dc = main.data_collection if hasattr(main, 'data_collection') else main
    datasets = list(dc)
    obs = {'container': type(main).__name__, 'labels': [d.label for d in datasets], 'data': []}
    universe = []
    for j, d in enumerate(datasets):
        for k, cid in enumerate(d.components):
            universe.append((j, k, cid))
    for i, d in enumerate(datasets):
        o = {}
        comps = list(d.components)
        o['shape'] = list(d.shape)
        o['components'] = [c.label for c in comps]
        o['kinds'] = [comp_kind(d, c) for c in comps]
        o['values'] = [guarded(lambda c=c: d[c]) for c in comps]
        o['units'] = [str(getattr(d.get_component(c), 'units', None) or '') for c in comps]
        # which component is the pixel / world attribute OF WHICH AXIS (axis i <-> i-th entry), with its values
        o['axes'] = [[c.label, getattr(c, 'axis', None), guarded(lambda c=c: d[c])]
                     for c in list(d.pixel_component_ids) + list(d.world_component_ids)]
        o['linked'] = {}
        for j, k, cid in universe:
            if j != i:
                o['linked']['%d.%d' % (j, k)] = guarded(lambda cid=cid: d[cid])
        o['subsets'] = [dict(label=s.label, style=style_digest(s.style),
                             mask=mask_digest(lambda s=s: s.to_mask())) for s in d.subsets]
        o['style'] = style_digest(d.style)
        o['meta'] = meta_digest(d.meta, original)
        joins = []
        for other, (c1, c2) in d._key_joins.items():
            joins.append([getattr(other, 'label', repr(other)), [c.label for c in c1], [c.label for c in c2]])
        o['joins'] = sorted(joins)
        obs['data'].append(o)
    obs['groups'] = [dict(label=g.label, style=style_digest(g.style), n=len(g.subsets))
                     for g in dc.subset_groups]
    obs['sg_count'] = dc._sg_count
    return obs


def state_sig(state, detail=True):
    """Class signature of a subset state for violation keys."""
    name = type(state).__name__
    if not detail:
        return name
    roi = getattr(state, 'roi', None)
    if roi is not None:
        r = type(roi).__name__
        inner = getattr(roi, 'roi_2d', None)
        if inner is not None:
            r += '(%s)' % type(inner).__name__
        name += '(%s)' % r
    try:
        pre = getattr(state, 'pretransform', None)
    except Exception:
        pre = None
    if pre is not None:
        name += '+pre:%s' % getattr(pre, '__name__', type(pre).__name__)
    return name


def children(state):
    from glue.core.subset import CompositeSubsetState, MultiOrState
    if isinstance(state, MultiOrState):
        return list(state.states)
    if isinstance(state, CompositeSubsetState):
        return [s for s in (state.state1, state.state2) if s is not None]
    return []


def culprit(s0, s1, d0, d1, depth=0):
    """Deepest pair of corresponding nodes whose masks differ while all their children agree."""
    c0, c1 = children(s0), children(s1)
    if type(s0).__name__ == type(s1).__name__ and len(c0) == len(c1):
        for a, b in zip(c0, c1):
            if mask_digest(lambda: d0.get_mask(a)) != mask_digest(lambda: d1.get_mask(b)):
                return culprit(a, b, d0, d1, depth + 1)
    return s0, s1, depth


def mask_key(main0, main1, di, si):
    dc0 = main0.data_collection if hasattr(main0, 'data_collection') else main0
    dc1 = main1.data_collection if hasattr(main1, 'data_collection') else main1
    try:
        d0, d1 = dc0[di], dc1[di]
        s0, s1, depth = culprit(d0.subsets[si].subset_state, d1.subsets[si].subset_state, d0, d1)
    except Exception as e:
        return 'mask|unattributed:%s' % type(e).__name__
    if type(s0).__name__ != type(s1).__name__:
        return 'mask|%s->%s' % (state_sig(s0, False), state_sig(s1, False))
    return 'mask|%s|%s' % (state_sig(s0), 'nested' if depth else 'top')


def compare(o0, o1, main0, main1, case):
    """-> list of (clause, key, observed, expected).  o0 = expected (before), o1 = observed (after)."""
    out = []

    def add(clause, key, obs, exp):
        out.append((clause, key, obs, exp))

    if o0['container'] != o1['container']:
        add('container', 'container|%s->%s' % (o0['container'], o1['container']), o1['container'], o0['container'])
    if o0['labels'] != o1['labels']:
        add('labels', 'labels|datasets', o1['labels'], o0['labels'])
        return out
    linkcls = '+'.join(sorted(set(links()[l][0] for l in case.get('links', [])))) or 'none'
    for i, (a, b) in enumerate(zip(o0['data'], o1['data'])):
        where = o0['labels'][i]
        if a['shape'] != b['shape']:
            add('values', 'shape|%s' % where, b['shape'], a['shape'])
            continue
        if a['components'] != b['components']:
            if sorted(a['components']) == sorted(b['components']):
                add('component-order', 'component-order', b['components'], a['components'])
            else:
                missing = [c for c in a['components'] if c not in b['components']]
                extra = [c for c in b['components'] if c not in a['components']]
                kinds = sorted(set(a['kinds'][a['components'].index(c)] for c in missing))
                add('components', 'components|dropped=%s|extra=%d' % ('+'.join(kinds) or 'none', len(extra)),
                    b['components'], a['components'])
            continue
        for k, lab in enumerate(a['components']):
            if a['values'][k] != b['values'][k]:
                add('values', 'values|%s|%dd' % (a['kinds'][k], len(a['shape'])), {lab: b['values'][k]}, {lab: a['values'][k]})
            elif a['kinds'][k].split('(')[0] != b['kinds'][k].split('(')[0]:
                add('values', 'component-class|%s->%s' % (a['kinds'][k], b['kinds'][k]), b['kinds'][k], a['kinds'][k])
            if a['units'][k] != b['units'][k] and (case.get('include_data', True) or
                                                   case['datasets'][i][1].get('backing', 'mem') == 'mem'):
                add('units', 'units|%s' % a['kinds'][k], {lab: b['units'][k]}, {lab: a['units'][k]})
        if a.get('axes') != b.get('axes'):
            add('coordinates', 'coordinate-attributes|axis-assignment', b.get('axes'), a.get('axes'))
        seen_linked = set()
        for k in sorted(a['linked']):
            if a['linked'][k] != b['linked'].get(k):
                j, kk = [int(x) for x in k.split('.')]
                tgt = '%s.%s' % (o0['labels'][j], o0['data'][j]['components'][kk])
                tkind = o0['data'][j]['kinds'][kk]
                key = ('linked|target=%s' % tkind) if tkind.startswith('Derived') else ('linked|links=%s' % linkcls)
                if key in seen_linked:
                    continue
                seen_linked.add(key)
                add('linked-attributes', key,
                    {'%s[%s]' % (where, tgt): b['linked'].get(k)}, {'%s[%s]' % (where, tgt): a['linked'][k]})
        if len(a['subsets']) != len(b['subsets']):
            add('subsets', 'subsets|count', len(b['subsets']), len(a['subsets']))
        else:
            for si, (sa, sb) in enumerate(zip(a['subsets'], b['subsets'])):
                if sa['mask'] != sb['mask']:
                    add('mask', mask_key(main0, main1, i, si),
                        {'%s/%s' % (where, sa['label']): sb['mask']}, {'%s/%s' % (where, sa['label']): sa['mask']})
                if sa['label'] != sb['label']:
                    add('labels', 'labels|subset', sb['label'], sa['label'])
                if sa['style'] != sb['style']:
                    bad = sorted(x for x in sa['style'] if sa['style'][x] != sb['style'].get(x))
                    add('styles', 'style|subset|%s' % '+'.join(bad), sb['style'], sa['style'])
        if a['style'] != b['style']:
            bad = sorted(x for x in a['style'] if a['style'][x] != b['style'].get(x))
            add('styles', 'style|data|%s' % '+'.join(bad), b['style'], a['style'])
        # serialisable meta must survive; nothing may be invented
        lost = sorted(k for k in a['meta'] if k not in b['meta'] or a['meta'][k] != b['meta'][k])
        invented = sorted(k for k in b['meta'] if k not in METAS[case['datasets'][i][1].get('meta', 'none')]
                          and k not in a['meta'])
        if lost or invented:
            add('meta', 'meta|lost=%s|invented=%d' % ('+'.join(sorted(set(type(a['meta'][k]).__name__ for k in lost)))
                                                      or 'none', len(invented)), b['meta'], a['meta'])
        if a['joins'] != b['joins']:
            add('joins', 'joins|%s' % '+'.join(case.get('joins', [])) or 'none', b['joins'], a['joins'])
    if o0['groups'] != o1['groups']:
        add('groups', 'groups|label-style-count', o1['groups'], o0['groups'])
    if o0['sg_count'] != o1['sg_count']:
        add('groups', 'groups|sg_count', o1['sg_count'], o0['sg_count'])
    return out


def _culprit_type(exc, saving):
    """Innermost object being (un)serialised when `exc` was raised, from the traceback frames of
    GlueSerializer.do / GlueUnSerializer.object."""
    name = None
    generic = ('MethodType', 'FunctionType', 'list', 'tuple', 'dict', 'set', 'ndarray')
    tb = exc.__traceback__
    while tb is not None:
        f = tb.tb_frame
        if f.f_code.co_filename.endswith(os.path.join('glue', 'core', 'state.py')):
            cand = None
            if saving and f.f_code.co_name == 'do' and 'obj' in f.f_locals:
                cand = type(f.f_locals['obj']).__name__
            elif not saving and f.f_code.co_name == 'object':
                rec = f.f_locals.get('rec')
                if isinstance(rec, dict) and '_type' in rec:
                    cand = str(rec['_type']).rsplit('.', 1)[-1]
            if cand is not None and (name is None or cand not in generic):
                name = cand
        tb = tb.tb_next
    return name or 'unknown'


def _slug(exc):
    """First words of an exception message, reduced to letters (stable part of a key)."""
    import re
    words = re.sub(r'[^A-Za-z_ ]', ' ', str(exc)).split()
    return '-'.join(words[:6]) or 'no-message'


def roundtrip(main, include_data):
    """-> ('loud', exc, culprit) | ('load-raises', exc, culprit) | ('ok', restored, None)."""
    from glue.core.state import GlueSerializer, GlueUnSerializer
    try:
        text = GlueSerializer(main, include_data=include_data).dumps()
    except Exception as e:
        return 'loud', e, _culprit_type(e, True)
    try:
        return 'ok', GlueUnSerializer.loads(text).object('__main__'), None
    except Exception as e:
        return 'load-raises', e, _culprit_type(e, False)


def edit_loaded(main, edits):
    dc = main.data_collection if hasattr(main, 'data_collection') else main
    for d in dc:
        for k, v in STYLES[edits.get('style', 'default')].items():
            setattr(d.style, k, v)
        for k, v in METAS[edits.get('meta', 'none')].items():
            if isinstance(v, str) and v.startswith('<<'):
                continue
            d.meta[k] = v
    for g in dc.subset_groups:
        for k, v in STYLES[edits.get('group_style', 'default')].items():
            setattr(g.style, k, v)
    if edits.get('new_group'):
        d = dc[0]
        g = dc.new_subset_group('added later', d.id[d.main_components[0].label] > 0)
        for k, v in STYLES[edits.get('group_style', 'default')].items():
            setattr(g.style, k, v)
    if edits.get('relabel'):
        dc[0].label = dc[0].label + ' (edited)'


def is_nontrivial(obs):
    """A case counts as non-trivial when the first subset group (the state under test) is a proper
    non-empty selection on some dataset, or (no groups) the session has categorical / datetime /
    derived components, linked values, meta or a non-default style."""
    for o in obs['data']:
        for s in o['subsets'][:1]:     # the first group carries the state under test
            m = s['mask']
            if isinstance(m, list) and len(m) == 2 and 0 < sum(m[1]) < len(m[1]):
                return True
    if not obs['groups']:
        for o in obs['data']:
            if any(isinstance(v, list) for v in o['linked'].values()):
                return True
            if any(k.startswith(('DerivedComponent', 'Categorical', 'DateTime')) for k in o['kinds']):
                return True
            if o['meta'] or o['style'] != style_digest_default():
                return True
    return False


_sd = {}


def style_digest_default():
    if 'd' not in _sd:
        from glue.core.visual import VisualAttributes
        _sd['d'] = style_digest(VisualAttributes())
    return _sd['d']


def run_case(case, res=None):
    """Execute one descriptor; returns the list of violation tuples (clause,key,observed,expected,detail)."""
    core.reset_globals()
    viol = []
    focus = case.get('focus', '?')
    W = build_world(case)
    inc = case.get('include_data', True)
    o0 = observe(W.main, True)
    st, r1, who = roundtrip(W.main, inc)
    status = st
    if st == 'loud':
        if res is not None:
            res.count('loud_saves')
            res.count('loud:%s:%s' % (who, type(r1).__name__))
    elif st == 'load-raises':
        viol.append(('load-raises', 'load-raises|%s|%s|%s' % (type(r1).__name__, who, _slug(r1)), repr(r1)[:300],
                     'restored session', 'focus=%s' % focus))
    else:
        o1 = observe(r1, False)
        for clause, key, obs, exp in compare(o0, o1, W.main, r1, case):
            viol.append((clause, key, obs, exp, 'focus=%s' % focus))
        st2, r2, who2 = roundtrip(r1, inc)
        if st2 != 'ok':
            viol.append(('idempotence', 'idempotence|second-%s|%s|%s|%s' % (st2, type(r2).__name__, who2, _slug(r2)),
                         repr(r2)[:300], 'second save/load succeeds', 'focus=%s' % focus))
        else:
            o2 = observe(r2, False)
            for clause, key, obs, exp in compare(o1, o2, r1, r2, case):
                viol.append(('idempotence', 'idempotence|' + key, obs, exp, 'second round trip differs from first'))
        if case.get('after_load'):
            # a restored session is an object like any other: the user goes on working with it and saves again
            edit_loaded(r1, case['after_load'])
            o3 = observe(r1, True)
            st3, r3, who3 = roundtrip(r1, inc)
            if st3 == 'loud':
                if res is not None:
                    res.count('loud_saves_after_load')
            elif st3 != 'ok':
                viol.append(('load-raises', 'edited-after-load|load-raises|%s|%s|%s' % (type(r3).__name__, who3, _slug(r3)),
                             repr(r3)[:300], 'restored session', 'focus=%s' % focus))
            else:
                for clause, key, obs, exp in compare(o3, observe(r3, False), r1, r3, case):
                    viol.append((clause, 'edited-after-load|' + key, obs, exp,
                                 'session loaded, edited (%s), saved and loaded again' % core.jdump(case['after_load'])))
    if res is not None:
        sig = core.short_hash(core.jdump(case, sort_keys=True)) if (status != 'loud' and is_nontrivial(o0)) else None
        res.case(sig=sig, sample=dict(focus=focus, status=status))
        res.count('status:%s' % status)
    return viol


# --------------------------------------------------------------------------
# enumeration
# --------------------------------------------------------------------------
CONTEXTS_Q = ['and-l', 'and-r', 'or-l', 'xor-l', 'not', 'multior-l']
CONTEXTS_T = CONTEXTS_Q + ['or-r', 'xor-r', 'multior-r']


def apply_context(ctx, e, ds):
    K = ['K', ds]
    if ctx == 'and-l':
        return ['and', e, K]
    if ctx == 'and-r':
        return ['and', K, e]
    if ctx == 'or-l':
        return ['or', e, K]
    if ctx == 'or-r':
        return ['or', K, e]
    if ctx == 'xor-l':
        return ['xor', e, K]
    if ctx == 'xor-r':
        return ['xor', K, e]
    if ctx == 'not':
        return ['not', e]
    if ctx == 'multior-l':
        return ['multior', [e, K]]
    if ctx == 'multior-r':
        return ['multior', [['K2', ds], e, K]]
    raise ValueError(ctx)


def ds_opts(names, coords='none', **over):
    out = []
    for n in names:
        o = {}
        if len(SHAPES[n]) > 1 and coords != 'none':
            o['coords'] = coords
        o.update(over.get(n, {}))
        out.append([n, o])
    return out


def state_cases(tier):
    """F1: every leaf x nesting context (depth 2 quick, depth 3 thorough) x coordinates."""
    out = []
    ctx1 = CONTEXTS_Q if tier == 'quick' else CONTEXTS_T
    for name, (cls, needs, comp_ds, _f) in sorted(leaves().items()):
        image_like = any(len(SHAPES[n]) > 1 for n in needs)
        coords_list = ['none']
        if image_like:
            coords_list = ['none', 'affine'] if tier == 'quick' else ['none', 'identity', 'affine']
        exprs = [('alone', ['L', name])]
        for c in ctx1:
            exprs.append((c, apply_context(c, ['L', name], comp_ds)))
        if tier == 'thorough':
            for c1 in CONTEXTS_T:
                for c2 in CONTEXTS_T:
                    exprs.append((c1 + '/' + c2, apply_context(c1, apply_context(c2, ['L', name], comp_ds), comp_ds)))
        else:
            # depth 3 over the smaller context alphabet in the quick tier
            for c1 in CONTEXTS_Q:
                for c2 in CONTEXTS_Q:
                    exprs.append((c1 + '/' + c2, apply_context(c1, apply_context(c2, ['L', name], comp_ds), comp_ds)))
        for coords in coords_list:
            for cname, e in exprs:
                if coords != 'none' and '/' in cname and (tier == 'quick' or coords == 'identity'):
                    continue       # depth 3 is combined with affine coordinates only, and only in the thorough tier
                out.append(dict(focus='state:%s' % name, nest=cname, datasets=ds_opts(needs, coords),
                                links=(['LinkSame:pixels'] if 'img2' in needs else []),
                                groups=[dict(state=e, label='sel'), dict(state=['K2', comp_ds], style='s1')]))
        # dataset order: the datasets the state refers to are not the first of the collection
        if 'tab2' not in needs:
            for cname, e in (exprs[:1] if tier == 'quick' else exprs[:1 + len(ctx1)]):
                out.append(dict(focus='state:%s' % name, nest=cname, order='not-first',
                                datasets=ds_opts(['tab2'] + list(needs), 'none'),
                                links=(['LinkSame:pixels'] if 'img2' in needs else []),
                                groups=[dict(state=e, label='sel'), dict(state=['K2', comp_ds], style='s1')]))
    return out


def link_cases(tier):
    """F2: every link helper alone, and every pair with disjoint attribute footprints."""
    out = []
    LK = links()
    names = sorted(LK)

    def mk(ls, tag):
        needs = []
        for l in ls:
            for n in LK[l][1]:
                if n not in needs:
                    needs.append(n)
        groups = []
        for n in needs[:2]:
            groups.append(dict(state=['K', n], label='on-' + n))
        return dict(focus='link:%s' % '+'.join(ls), datasets=ds_opts(needs), links=list(ls), groups=groups, tag=tag)
    for l in names:
        out.append(mk([l], 'single'))
    for a, b in itertools.permutations(names, 2):
        if LK[a][2] & LK[b][2]:
            continue
        if tier == 'quick' and not (a < b):
            continue
        out.append(mk([a, b], 'pair'))
    return out


def join_cases(tier):
    out = []
    for jn in sorted(JOINS):
        for st in (['K', 'tab'], ['K', 'tab2'], ['and', ['K', 'tab'], ['K2', 'tab']],
                   ['L', 'ElementSubsetState'], ['L', 'RoiSubsetState[CircularROI]']):
            out.append(dict(focus='join:%s' % jn, datasets=ds_opts(['tab', 'tab2']), joins=[jn],
                            groups=[dict(state=st, label='g')]))
        if tier == 'thorough':
            for ln in ['LinkSame:cross-y', 'MultiLink:1-1']:
                out.append(dict(focus='join:%s+link' % jn, datasets=ds_opts(['tab', 'tab2']), joins=[jn],
                                links=[ln], groups=[dict(state=['K', 'tab'], label='g'),
                                                    dict(state=['K2', 'tab2'], label='h')]))
    return out


def kind_cases(tier):
    """F4: component kinds (each alone, all together) x dimensionality x coordinates x order."""
    out = []
    for ds in ['k1', 'k2', 'k3', 'tab']:
        for coords in ['none', 'identity', 'affine']:
            if ds == 'tab' and coords != 'none':
                continue
            kindsets = [[k] for k in ALL_KINDS] + [list(ALL_KINDS), []]
            for ks in kindsets:
                for reorder in ([False, True, 'all'] if (tier == 'thorough' or len(ks) != 1) else [False]):
                    o = {'kinds': ks, 'reorder': reorder}
                    if coords != 'none':
                        o['coords'] = coords
                    out.append(dict(focus='kind:%s' % ('+'.join(ks) or 'plain'), datasets=[[ds, o]], groups=[]))
    return out


def style_cases(tier):
    out = []
    for st in sorted(STYLES):
        for me in sorted(METAS):
            for gst in (sorted(STYLES) if tier == 'thorough' else ['default', 's2', 's5']):
                out.append(dict(focus='style-meta', datasets=[['tab', {'style': st, 'meta': me}],
                                                                ['img', {'style': gst, 'meta': me}]],
                                groups=[dict(state=['K', 'tab'], style=gst, label='styled %s' % gst),
                                        dict(state=['K', 'img'])]))
    return out


def reload_cases(tier):
    """Sessions that are loaded, edited and saved again (style / meta / groups changed on the restored objects)."""
    out = []
    for st in sorted(STYLES):
        for gst in (sorted(STYLES) if tier == 'thorough' else ['default', 's1', 's4']):
            for extra in ({}, {'new_group': True, 'relabel': True}):
                for me in (sorted(METAS) if tier == 'thorough' else ['none', 'm1']):
                    edits = dict(style=st, group_style=gst, meta=me, **extra)
                    out.append(dict(focus='edited-after-load', datasets=[['tab', {}], ['img', {'style': 's2'}]],
                                    groups=[dict(state=['K', 'tab'], label='g'), dict(state=['K', 'img'], style='s3')],
                                    after_load=edits))
    return out


LABELS = ['same', '__main__', 'st__x', '', 'donn\u00e9es \u03b1', 'a.b/c d', 'Pixel Axis 0 [x]', 'n0', 'tab_0']


def label_cases(tier):
    """Names in the session file derive from labels: collisions and odd labels."""
    out = []
    for lab in LABELS:
        # two datasets with the same label, a component and a group carrying that label too
        out.append(dict(focus='labels:%s' % (lab or 'empty'),
                        datasets=[['k1', {'label': lab, 'kinds': ['cat']}], ['tab', {'label': lab, 'kinds': ['bin']}]],
                        groups=[dict(state=['K', 'tab'], label=lab or 'g'), dict(state=['K2', 'tab'], label=lab or 'g')]))
        out.append(dict(focus='labels:component=%s' % (lab or 'empty'),
                        datasets=[['tab', {'kinds': ['bin', 'cat'], 'rename': {'y': lab, 'c': lab}}],
                                  ['tab2', {'kinds': [], 'rename': {'b': lab}}]],
                        links=['LinkSame'], groups=[dict(state=['K', 'tab'], label='g')]))
        # the two inputs of an arithmetic (text) attribute and of a plain arithmetic attribute carry the same label
        out.append(dict(focus='labels:inputs-share-label=%s' % (lab or 'empty'),
                        datasets=[['tab', {'kinds': ['par', 'bin'], 'rename': {'x': lab, 'z': lab}}]], groups=[]))
    out.append(dict(focus='labels:empty-collection', datasets=[], groups=[]))
    return out


BACKINGS = {'tab': ['csv', 'fitstable', 'votable', 'hdf5'], 'tab2': ['csv'], 'img': ['fits', 'hdf5'],
            'cube': ['fits', 'hdf5']}
FILE_KINDS = ['int', 'cat', 'cat2', 'bin', 'fn', 'par']


def file_cases(tier):
    """F6: file-backed data, include_data off and on."""
    out = []
    tab_states = ['RangeSubsetState', 'RoiSubsetState[PolygonalROI]', 'CategorySubsetState',
                  'ElementSubsetState', 'InequalitySubsetState:link', 'CategoricalROISubsetState',
                  'MaskSubsetState:1d']
    img_states = ['MaskSubsetState', 'SliceSubsetState', 'RoiSubsetState:pix', 'FloodFillSubsetState',
                  'InequalitySubsetState:image']
    cube_states = ['RoiSubsetState3d:pix', 'SliceSubsetState:short', 'InequalitySubsetState:cube']
    for inc in (False, True):
        for b in BACKINGS['tab']:
            kinds = [k for k in FILE_KINDS]
            for s in (tab_states if (tier == 'thorough' or b == 'csv') else tab_states[:2]):
                out.append(dict(focus='file:%s' % b, include_data=inc,
                                datasets=[['tab', {'backing': b, 'kinds': kinds}]],
                                groups=[dict(state=['L', s], label='g'), dict(state=['not', ['L', s]])]))
            out.append(dict(focus='file:%s+link' % b, include_data=inc,
                            datasets=[['tab', {'backing': b, 'kinds': kinds}], ['tab2', {'backing': 'csv'}]],
                            links=['LinkSame', 'LinkTwoWay'], joins=['1-1'],
                            groups=[dict(state=['K', 'tab'], label='g'), dict(state=['K2', 'tab2'])]))
            out.append(dict(focus='file:%s+mem' % b, include_data=inc,
                            datasets=[['tab', {'backing': b, 'kinds': kinds}], ['tab2', {}]],
                            links=['MultiLink:2-2'], groups=[dict(state=['K', 'tab'], label='g')]))
        for b in BACKINGS['img']:
            for s in (img_states if (tier == 'thorough' or b == 'fits') else img_states[:2]):
                out.append(dict(focus='file:%s:img' % b, include_data=inc, datasets=[['img', {'backing': b}]],
                                groups=[dict(state=['L', s], label='g')]))
        for b in BACKINGS['cube']:
            for s in (cube_states if (tier == 'thorough' or b == 'fits') else cube_states[:1]):
                out.append(dict(focus='file:%s:cube' % b, include_data=inc, datasets=[['cube', {'backing': b}]],
                                groups=[dict(state=['L', s], label='g')]))
    # include_data=False on in-memory data must still embed the data
    out.append(dict(focus='mem:include_data=False', include_data=False, datasets=ds_opts(['tab', 'img'], 'affine'),
                    groups=[dict(state=['K', 'tab'])]))
    return out


def app_cases(tier, base):
    """F7: the same sessions saved through a headless Application."""
    out = []
    picks = [c for c in base if c.get('nest', 'alone') in ('alone', 'and-l') or c['focus'].startswith(('link:', 'join:'))]
    if tier == 'quick':
        picks = [c for c in picks if c.get('nest', 'alone') == 'alone' and c.get('tag', 'single') == 'single'
                 and not c['focus'].startswith('join:')]
    for c in picks:
        c2 = dict(c)
        c2['container'] = 'app'
        c2['focus'] = c['focus']
        out.append(c2)
    return out


def multi_cases(tier):
    """Sessions with all five datasets, several links, joins and groups at once."""
    out = []
    allds = ['tab', 'tab2', 'img', 'img2', 'cube']
    sets = [
        ['RoiSubsetState[EllipticalROI:theta]', 'SliceSubsetState:aligned', 'RoiSubsetState3d:pix'],
        ['CategoricalMultiRangeSubsetState', 'MaskSubsetState', 'RoiSubsetState:pix-cube'],
        ['RangeSubsetState:datetime', 'RoiSubsetState:pix', 'SliceSubsetState:short'],
        ['InequalitySubsetState:link', 'PixelSubsetState', 'InequalitySubsetState:cube'],
    ]
    for coords in ['none', 'identity', 'affine']:
        for ls in (['LinkSame', 'LinkSame:pixels'], ['LinkSame:cross-y', 'LinkAligned', 'JoinLink'],
                   ['LinkTwoWay', 'ComponentLink:3->1', 'LinkSame:pixels']):
            for ss in sets:
                for joins in ([], ['1-1']):
                    if 'JoinLink' in ls and joins:
                        continue
                    groups = [dict(state=['L', s], label='g%d' % i, style=['s1', 's2', 's3'][i])
                              for i, s in enumerate(ss)]
                    groups.append(dict(state=['or', ['L', ss[0]], ['not', ['K', 'tab']]]))
                    out.append(dict(focus='multi', datasets=ds_opts(allds, coords, tab={'style': 's3', 'meta': 'm1'}),
                                    links=ls, joins=joins, groups=groups))
    return out


def all_cases(tier):
    base = state_cases(tier) + link_cases(tier) + join_cases(tier)
    cases = base + kind_cases(tier) + style_cases(tier) + reload_cases(tier) + file_cases(tier) + multi_cases(tier) + label_cases(tier)
    cases += app_cases(tier, base)
    if tier == 'quick':
        p = core.seed() % 3
        return [dict(c, palette=p) for c in cases]
    return [dict(c, palette=p) for p in range(3) for c in cases]


# --------------------------------------------------------------------------
# introspection: what exists vs. what the tables cover
# --------------------------------------------------------------------------
def discover():
    import pkgutil
    import importlib
    import glue
    failed = []
    for m in pkgutil.walk_packages(glue.__path__, 'glue.'):
        if '.tests' in m.name or m.name.endswith('conftest'):
            continue
        try:
            importlib.import_module(m.name)
        except Exception as e:
            failed.append('%s (%s)' % (m.name, type(e).__name__))
    from glue.core.subset import SubsetState
    from glue.core.roi import Roi
    from glue.core.link_helpers import LinkCollection, ManualLinkCollection

    def subs(c):
        out = []
        for s in c.__subclasses__():
            for x in [s] + subs(s):
                if x not in out:
                    out.append(x)
        return out
    states = [SubsetState] + subs(SubsetState)
    rois = [Roi] + subs(Roi)
    lks = [LinkCollection] + subs(LinkCollection) + [ManualLinkCollection]
    return states, rois, lks, failed


def coverage_tables():
    states, rois, lks, failed = discover()
    st_cov = set(v[0] for v in leaves().values()) | {'AndState', 'OrState', 'XorState', 'InvertState', 'MultiOrState'}
    roi_cov = set(r.split(':')[0] for r in ROI2D + ROI3D)
    lk_cov = set(v[0] for v in links().values())
    gaps = []
    for c in states:
        if c.__name__ not in st_cov:
            gaps.append('SubsetState:%s.%s' % (c.__module__, c.__name__))
    for c in rois:
        if c.__name__ not in roi_cov:
            gaps.append('Roi:%s.%s' % (c.__module__, c.__name__))
    excluded = {}
    for c in lks:
        if c.__name__ in lk_cov:
            continue
        if c.__name__ in LINK_EXCLUDED:
            excluded[c.__name__] = LINK_EXCLUDED[c.__name__]
        else:
            gaps.append('Link:%s.%s' % (c.__module__, c.__name__))
    return dict(subset_state_classes=sorted(c.__name__ for c in states),
                roi_classes=sorted(c.__name__ for c in rois),
                link_helper_classes=sorted(c.__name__ for c in lks),
                classes_without_factory=sorted(gaps),
                link_classes_excluded=excluded,
                modules_not_importable=failed)


# --------------------------------------------------------------------------
# driver
# --------------------------------------------------------------------------
def work(shard):
    tier, cases = shard
    core.bind()
    import logging
    logging.disable(logging.CRITICAL)
    res = core.Result()
    try:
        for c in cases:
            try:
                viol = run_case(c, res)
            except Exception:
                import traceback
                raise RuntimeError('harness failure on case %s\n%s' % (core.jdump(c), traceback.format_exc()))
            for clause, key, obs, exp, detail in viol:
                res.violation(clause, key, c, obs, exp, detail)
    finally:
        scratch_cleanup()
    return res


RULE = ('one evaluation = one complete session built from a descriptor, saved and restored twice.  '
        'non-trivial = the save succeeded and the first subset group (the state under test) is a proper non-empty selection on some dataset '
        '(or, for sessions without groups, the session has categorical/datetime/derived components, linked '
        'values, meta or a non-default style)')


def run(tier):
    t0 = time.time()
    core.bind()
    cov_tab = coverage_tables()
    cases = all_cases(tier)
    dims = {}
    for c in cases:
        fam = c['focus'].split(':')[0] + (':app' if c.get('container') == 'app' else '')
        dims[fam] = dims.get(fam, 0) + 1
    cases = core.rotate(cases)
    total = core.run_shards(work, [(tier, s) for s in core.split(cases, core.jobs() * 4)])
    scratch_cleanup()
    cov = dict(product_dimensions=dict(sessions_per_family=dims, leaves=len(leaves()), link_specs=len(links()),
                                       contexts=len(CONTEXTS_Q if tier == 'quick' else CONTEXTS_T),
                                       nesting_depth=3,
                                       palettes=[core.seed() % 3] if tier == 'quick' else [0, 1, 2]))
    cov.update(cov_tab)
    return core.finish(
        PROP, tier, total, 'exploration', RULE, t0, coverage=cov, confirm=confirm,
        assumptions=[
            'coordinates are None / IdentityCoordinates / AffineCoordinates (no WCS; WCSLink therefore excluded)',
            'link functions are module-level python functions (a lambda is included only to show the save is loud)',
            'container types inside meta/style values are not compared (tuple vs list); palettes avoid tuples',
            'link classes are compared by behaviour (accessible attributes and their values), not by identity '
            'or count of link objects',
            'pairs of links are only combined when their attribute footprints are disjoint (otherwise which of '
            'two inconsistent links wins depends on set iteration order)',
            'units of components are compared (they are saved next to the values)',
            'datasets have at most 3 dimensions and at most 24 elements; three value palettes',
        ])


def confirm(v):
    try:
        viol = run_case(v['case'])
    finally:
        scratch_cleanup()
    hit = [x for x in viol if x[1] == v['key']]
    return bool(hit)


def replay(doc):
    try:
        viol = run_case(doc['case'])
    finally:
        scratch_cleanup()
    for x in viol:
        print('  violated: clause=%s key=%s' % (x[0], x[1]))
        print('     observed=%s' % core._clip(x[2]))
        print('     expected=%s' % core._clip(x[3]))
    return any(x[1] == doc['key'] for x in viol)
