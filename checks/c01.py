"""C01 - selections form a faithful Boolean algebra over membership masks.

Mode I (bounded-exhaustive input enumeration) over expression trees, plus a
plain exhaustive enumeration of EditSubsetMode update sequences.

Trees
-----
A tree is a JSON-able nested list over leaf names ``'Class:variant'``:
``['~', t]``, ``['&', a, b]``, ``['|', a, b]``, ``['^', a, b]``,
``['multi', t1..tk]`` (MultiOrState) and ``['cm', op, t1..tk]``
(``combine_multiple``).  Leaves come from a factory table keyed by the
SubsetState subclass; the subclasses are discovered by introspection and a
class without a factory is reported as a coverage gap.

Oracle
------
The membership mask of every leaf is taken from a *separately constructed*
twin evaluated alone; the expected mask of a tree is the same operator tree in
numpy over those.  Every tree is built several times from fresh objects and
evaluated under different schedules (once / twice / parts first / parts last /
with a view first / on the foreign dataset first / through copies); every
full evaluation of every sub-selection (the operand objects handed to the
operators *and* the copies held inside the composites) must give the expected
mask, with dtype bool and the dataset's shape; the operands' ``attributes``
must be unchanged.  On a dataset where a part is incompatible (no joins) the
composite must raise IncompatibleAttribute rather than yield a mask.
"""
import time
import operator
import itertools

import numpy as np

from mc import core

PROP = 'C01'

RULE = ('complete enumeration: every tree of the stated shapes over the stated leaf sets x construction route x '
        'evaluation schedule, per dataset; every EditSubsetMode sequence up to the length bound x '
        '{evaluate after every step, evaluate only at the end}.  non-trivial tree = composite whose expected '
        'mask on its own dataset has both selected and unselected elements; non-trivial edit sequence = '
        'length >= 2 and the edited subset selects some but not all elements of at least one dataset')

DKEYS = ['d1', 'd2', 'd3']
SHAPES = {'d1': (5,), 'd2': (2, 3), 'd3': (2, 2, 3)}
FOREIGN_SHAPE = (2, 2)

BINOPS = {'&': operator.and_, '|': operator.or_, '^': operator.xor}

# base value palettes; VERIF_SEED selects a rotation (structure of the cases never changes)
_F = [1.5, np.nan, -2.0, np.inf, 3.25, -np.inf, 0.5, 4.0, np.nan, 2.5, -1.0, 6.0]
_I = [3, 1, 4, 1, 5, 2, 0, 3, 2, 4, 1, 5]
_C = list('abcabbcacabc')
_C2 = list('xyxxyyxyxyxx')


def _roll(seq, k, n):
    seq = list(seq)
    k = k % len(seq)
    return (seq[k:] + seq[:k])[:n]


# ---------------------------------------------------------------------------
# worlds
# ---------------------------------------------------------------------------

class World(object):
    """The dataset under test `d`, an unrelated `other` dataset (no links, no
    joins) and the per-world caches of twin observations."""

    def __init__(self, dkey, palette=None):
        from glue.core import Data
        from glue.core.coordinates import AffineCoordinates
        self.dkey = dkey
        self.palette = core.seed() % 3 if palette is None else palette
        shape = SHAPES[dkey]
        n = int(np.prod(shape))
        nd = len(shape)
        k = self.palette
        m = np.eye(nd + 1)
        for a in range(nd):
            m[a, a] = 2.0 + a
            m[a, nd] = 0.5 * a
        d = Data(f=np.array(_roll(_F, k, n)).reshape(shape),
                 i=np.array(_roll(_I, k, n)).reshape(shape),
                 c=np.array(_roll(_C, k, n)).reshape(shape),
                 c2=np.array(_roll(_C2, k, n)).reshape(shape),
                 label='D', coords=AffineCoordinates(m))
        d['dv'] = d.id['f'] + d.id['i']
        self.d = d
        fn = int(np.prod(FOREIGN_SHAPE))
        self.other = Data(f=np.array(_roll(_F, k + 4, fn)).reshape(FOREIGN_SHAPE),
                          g=np.array(_roll(_I, k + 2, fn)).reshape(FOREIGN_SHAPE), label='O')
        self.datasets = [self.d, self.other]
        self.ids = dict((c.label, c) for c in d.components)
        self.pix = list(d.pixel_component_ids)
        self.wld = list(d.world_component_ids)
        self.nd = nd
        from glue.core import DataCollection
        self.dc = DataCollection([self.d, self.other])
        self.leaves = leaf_table(self)
        self.twin = {}        # (leaf, dsidx) -> observation of a fresh twin evaluated alone
        self.twin_attr = {}
        self.exp_cache = {}
        self.pristine = self.snapshot()

    def snapshot(self):
        """Cheap fingerprint of the datasets: structure (component id lists) and stored arrays."""
        out = []
        for ds in self.datasets:
            out.append((ds.label, [id(c) for c in ds.pixel_component_ids], [id(c) for c in ds.world_component_ids],
                        [id(c) for c in ds._components]))
            for cid, comp in ds._components.items():
                a = getattr(comp, '_data', None)
                if a is not None:
                    a = getattr(a, 'codes', a)
                    out.append((cid.label, np.asarray(a).tobytes()))
        return out

    # -- twins ----------------------------------------------------------------
    def new_leaf(self, name):
        return self.leaves[name]()

    def leaf_obs(self, name, dsidx):
        key = (name, dsidx)
        if key not in self.twin:
            self.twin[key] = freeze(evaluate(self.new_leaf(name), self.datasets[dsidx]),
                                    self.datasets[dsidx])
        return self.twin[key]

    def leaf_attr(self, name):
        if name not in self.twin_attr:
            self.twin_attr[name] = attrs_of(self.new_leaf(name))
        return self.twin_attr[name]


def evaluate(state, data, view=None):
    """What a caller of Data.get_mask observes."""
    from glue.core.exceptions import IncompatibleAttribute
    try:
        return data.get_mask(state, view=view)
    except IncompatibleAttribute:
        return 'INCOMPAT'
    except Exception as e:     # noqa
        return 'RAISES:%s' % type(e).__name__


def freeze(m, data):
    """Observation -> comparable plain value: ('mask', dtype, shape, bytes) or a string."""
    if isinstance(m, str):
        return m
    if not isinstance(m, np.ndarray):
        return 'NOT-ARRAY:%s' % type(m).__name__
    if m.dtype == bool:
        return ('mask', 'bool', m.shape, m.tobytes())
    return ('mask', str(m.dtype), m.shape, m.astype(bool).tobytes())


def well_formed(obs, data):
    return isinstance(obs, tuple) and obs[1] == 'bool' and obs[2] == tuple(data.shape)


def as_array(obs):
    return np.frombuffer(obs[3], dtype=bool).reshape(obs[2])


def show(obs):
    if isinstance(obs, tuple):
        return dict(dtype=obs[1], shape=list(obs[2]), mask=as_array(obs).astype(int).tolist())
    return obs


def attrs_of(state):
    try:
        return [id(a) for a in state.attributes]
    except Exception as e:     # noqa
        return 'RAISES:%s' % type(e).__name__


# ---------------------------------------------------------------------------
# leaf factory table, keyed by SubsetState subclass
# ---------------------------------------------------------------------------

COMBINATORS = ('CompositeSubsetState', 'AndState', 'OrState', 'XorState', 'InvertState', 'MultiOrState')

INEQ = [('gt', operator.gt), ('ge', operator.ge), ('lt', operator.lt), ('le', operator.le),
        ('eq', operator.eq), ('ne', operator.ne)]


def _pretransform(x, y):
    return x * 0.5 + 1, y - x


def _pretransform3(x, y, z):
    return z * 0.5 + 1, y - 0.5, x


def _f_base(w, S):
    return {'empty': lambda: S.SubsetState()}


def _f_ineq(w, S):
    out = {}
    I = S.InequalitySubsetState
    ids = w.ids
    for nm, op in INEQ:
        out['f.%s.num' % nm] = lambda op=op: I(ids['f'], 1.5, op)
        out['i.%s.dv' % nm] = lambda op=op: I(ids['i'], ids['dv'], op)
    out['c.eq.str'] = lambda: I(ids['c'], 'a', operator.eq)
    out['pix.gt.num'] = lambda: I(w.pix[-1], 0, operator.gt)
    out['world.lt.num'] = lambda: I(w.wld[0], 2.1, operator.lt)
    out['num.lt.i'] = lambda: I(2, ids['i'], operator.lt)
    return out


def _f_range(w, S):
    R = S.RangeSubsetState
    return {'f': lambda: R(0.0, 3.5, w.ids['f']), 'dv': lambda: R(2.0, 6.0, w.ids['dv']),
            'world': lambda: R(1.0, 4.2, w.wld[-1]), 'pix': lambda: R(1, 1, w.pix[-1])}


def _f_multirange(w, S):
    M = S.MultiRangeSubsetState
    return {'i': lambda: M([(0, 1), (4, 5)], w.ids['i']), 'f': lambda: M([(-3.0, 0.75), (3.0, 100.0)], w.ids['f'])}


def _f_category(w, S):
    return {'c': lambda: S.CategorySubsetState(w.ids['c'], [0, 2])}


def _f_catroi(w, S):
    from glue.core.roi import CategoricalROI
    C = S.CategoricalROISubsetState
    return {'c': lambda: C(att=w.ids['c'], roi=CategoricalROI(['a', 'c'])),
            'from_range': lambda: C.from_range(np.array(['a', 'b', 'c']), w.ids['c'], 0.5, 2.0)}


def _f_catroi2d(w, S):
    if w.nd != 1:
        return {}
    return {'c.c2': lambda: S.CategoricalROISubsetState2D({'a': set(['x']), 'b': set(['x', 'y'])},
                                                          w.ids['c'], w.ids['c2'])}


def _f_catmultirange(w, S):
    if w.nd != 1:
        return {}
    return {'c.i': lambda: S.CategoricalMultiRangeSubsetState({'a': [(0, 2)], 'c': [(-1, 0), (4, 9)]},
                                                              w.ids['c'], w.ids['i'])}


def _f_roi(w, S):
    from glue.core.roi import RectangularROI, PolygonalROI, CircularROI
    R = S.RoiSubsetState
    ids = w.ids
    out = {'rect.i.dv': lambda: R(ids['i'], ids['dv'], RectangularROI(0.5, 4.5, 1.0, 7.0)),
           'poly.f.i': lambda: R(ids['f'], ids['i'], PolygonalROI([-3, 5, 5, -3], [0.5, 0.5, 3.5, 4.5])),
           'undefined': lambda: R(ids['i'], ids['dv'], RectangularROI()),
           'pre.i.f': lambda: R(ids['i'], ids['f'], RectangularROI(0.0, 3.1, -4.0, 0.9),
                                pretransform=_pretransform)}
    if w.nd >= 2:
        out['circ.pix'] = lambda: R(w.pix[-1], w.pix[-2], CircularROI(1.0, 0.5, 1.1))
        out['rect.pix.i'] = lambda: R(w.pix[-1], ids['i'], RectangularROI(0.5, 2.5, 0.5, 3.5))
    else:
        out['rect.pix.i'] = lambda: R(w.pix[0], ids['i'], RectangularROI(0.5, 3.5, 0.5, 3.5))
    return out


def _f_roind(w, S):
    from glue.core.roi import RectangularROI
    N = S.RoiSubsetStateNd
    out = {'rect.i.dv': lambda: N([w.ids['i'], w.ids['dv']], RectangularROI(0.5, 4.5, 1.0, 7.0)),
           # with a pretransform that matters (every field of a state has to survive a copy)
           'rect.i.dv.pre': lambda: N([w.ids['i'], w.ids['dv']], RectangularROI(0.5, 4.5, 1.0, 7.0),
                                      pretransform=_pretransform)}
    if w.nd >= 2:
        out['rect.pix'] = lambda: N([w.pix[-1], w.pix[-2]], RectangularROI(0.5, 2.5, -0.5, 0.5))
    return out


def _f_roi3d(w, S):
    from glue.core.roi import RectangularROI, Projected3dROI
    T = S.RoiSubsetState3d
    proj = [[1.0, 0.0, 0.5, 0.0], [0.0, 1.0, 0.25, 0.0], [0.0, 0.0, 1.0, 0.0], [0.0, 0.0, 0.0, 1.0]]
    ids = w.ids
    out = {'i.pix.i': lambda: T(ids['i'], w.pix[-1], ids['i'],
                                Projected3dROI(RectangularROI(1.0, 6.1, 0.4, 3.1), proj))}
    out['i.pix.i.pre'] = lambda: T(ids['i'], w.pix[-1], ids['i'],
                                   Projected3dROI(RectangularROI(1.0, 6.1, 0.4, 3.1), proj),
                                   pretransform=_pretransform3)
    if w.nd == 3:
        out['pix3'] = lambda: T(w.pix[2], w.pix[1], w.pix[0],
                                Projected3dROI(RectangularROI(0.4, 2.6, -0.1, 1.1), proj))
    return out


def _mask_pattern(shape):
    n = int(np.prod(shape))
    return (np.arange(n) % 3 != 1).reshape(shape)


def _f_mask(w, S):
    M = S.MaskSubsetState
    shape = w.d.shape
    out = {'pix': lambda: M(_mask_pattern(shape), w.d.pixel_component_ids)}
    if w.nd >= 2:
        out['rev'] = lambda: M(_mask_pattern(shape[::-1]), list(w.pix[::-1]))
    else:
        out['by.i'] = lambda: M(np.array([True, False, True, True, False, True]), [w.ids['i']])
    return out


def _slices(w, which):
    if which == 'a':
        return [slice(1, 3)] + [slice(None)] * (w.nd - 1)
    if which == 'b':
        return [slice(None)] * (w.nd - 1) + [slice(0, None, 2)]
    return [slice(1, 2)] + [slice(None)] * (w.nd - 1)


def _f_slice(w, S):
    return {'a': lambda: S.SliceSubsetState(w.d, _slices(w, 'a')),
            'b': lambda: S.SliceSubsetState(w.d, _slices(w, 'b'))}


def _f_pixel(w, S):
    from glue.viewers.image.pixel_selection_subset_state import PixelSubsetState
    return {'c': lambda: PixelSubsetState(w.d, _slices(w, 'c'))}


def _f_element(w, S):
    E = S.ElementSubsetState
    return {'bound': lambda: E(indices=[0, 3], data=w.d), 'free': lambda: E(indices=[1, 2])}


def _f_flood(w, S):
    F = S.FloodFillSubsetState
    return {'i': lambda: F(w.d, w.ids['i'], (0,) * w.nd, 1.4)}


def _f_parsed(w, S):
    from glue.core.parse import ParsedCommand, ParsedSubsetState
    ids = w.ids
    return {'f.gt': lambda: ParsedSubsetState(ParsedCommand('{f} > 1', {'f': ids['f']})),
            'i.and.dv': lambda: ParsedSubsetState(ParsedCommand('({i} > 1) & ({dv} < 5)',
                                                                {'i': ids['i'], 'dv': ids['dv']}))}


FACTORIES = {
    'SubsetState': _f_base, 'InequalitySubsetState': _f_ineq, 'RangeSubsetState': _f_range,
    'MultiRangeSubsetState': _f_multirange, 'CategorySubsetState': _f_category,
    'CategoricalROISubsetState': _f_catroi, 'CategoricalROISubsetState2D': _f_catroi2d,
    'CategoricalMultiRangeSubsetState': _f_catmultirange, 'RoiSubsetState': _f_roi,
    'RoiSubsetStateNd': _f_roind, 'RoiSubsetState3d': _f_roi3d, 'MaskSubsetState': _f_mask,
    'SliceSubsetState': _f_slice, 'PixelSubsetState': _f_pixel, 'ElementSubsetState': _f_element,
    'FloodFillSubsetState': _f_flood, 'ParsedSubsetState': _f_parsed,
}

# classes whose instances are only defined for 1-d datasets (their to_mask loops over len(values))
ONE_D_ONLY = ('CategoricalROISubsetState2D', 'CategoricalMultiRangeSubsetState')

_classes = None


def discover_classes():
    """Every SubsetState subclass importable from the package (name -> class)."""
    global _classes
    if _classes is None:
        import pkgutil
        import importlib
        import glue
        core.bind()
        for m in pkgutil.walk_packages(glue.__path__, 'glue.'):
            if '.tests' in m.name or m.name.endswith('conftest') or '.qt' in m.name:
                continue
            try:
                importlib.import_module(m.name)
            except Exception:     # noqa  (optional dependencies such as qtpy)
                continue
        from glue.core.subset import SubsetState

        def subs(c):
            for s in c.__subclasses__():
                yield s
                for t in subs(s):
                    yield t
        found = {'SubsetState': SubsetState}
        for s in subs(SubsetState):
            if s.__module__.startswith('glue.'):
                found[s.__name__] = s
        _classes = found
        core.reset_globals(rescan=True)
    return _classes


def leaf_table(w):
    """'Class:variant' -> thunk building a fresh state of exactly that class."""
    import glue.core.subset as S
    out = {}
    for cname in sorted(discover_classes()):
        fac = FACTORIES.get(cname)
        if fac is None:
            continue
        for variant, thunk in sorted(fac(w, S).items()):
            out['%s:%s' % (cname, variant)] = thunk
    return out


def class_coverage():
    classes = discover_classes()
    gaps = sorted(c for c in classes if c not in FACTORIES and c not in COMBINATORS)
    stale = sorted(c for c in FACTORIES if c not in classes)
    return dict(discovered=sorted(classes), leaf_factories=sorted(c for c in FACTORIES if c in classes),
                exercised_on_1d_dataset_only=list(ONE_D_ONLY),
                combinators=sorted(c for c in COMBINATORS if c in classes),
                coverage_gaps=gaps, factories_without_class=stale)


# ---------------------------------------------------------------------------
# trees
# ---------------------------------------------------------------------------

def is_leaf(t):
    return isinstance(t, str)


def struct(t):
    """Structural equivalent of a tree (combine_multiple -> nested binary nodes)."""
    if is_leaf(t):
        return t
    if t[0] == 'cm':
        members = [struct(x) for x in t[2:]]
        if not members:
            return 'SubsetState:empty'
        acc = members[0]
        for m in members[1:]:
            acc = [t[1], acc, m]
        return acc
    return [t[0]] + [struct(x) for x in t[1:]]


def leaves_of(t):
    if is_leaf(t):
        return [t]
    out = []
    for x in (t[2:] if t[0] == 'cm' else t[1:]):
        out.extend(leaves_of(x))
    return out


def tree_str(t):
    if is_leaf(t):
        return t
    if t[0] == '~':
        return '~%s' % tree_str(t[1])
    if t[0] == 'multi':
        return 'MultiOr(%s)' % ', '.join(tree_str(x) for x in t[1:])
    if t[0] == 'cm':
        return 'combine_multiple[%s](%s)' % (t[1], ', '.join(tree_str(x) for x in t[2:]))
    return '(%s %s %s)' % (tree_str(t[1]), t[0], tree_str(t[2]))


def expected(w, t, dsidx):
    """Observation expected from the definition: numpy fold of twin leaf masks
    (cached per world; the key is the tree itself)."""
    key = (repr(t), dsidx)
    r = w.exp_cache.get(key)
    if r is None:
        r = w.exp_cache[key] = _expected(w, t, dsidx)
    return r


def _expected(w, t, dsidx):
    t = struct(t)
    if is_leaf(t):
        o = w.leaf_obs(t, dsidx)
        if isinstance(o, tuple) and not well_formed(o, w.datasets[dsidx]):
            return 'UNDEFINED'
        return o
    parts = [expected(w, x, dsidx) for x in t[1:]]
    if any(isinstance(p, str) and p != 'INCOMPAT' for p in parts):
        return 'UNDEFINED'
    if any(p == 'INCOMPAT' for p in parts):
        return 'INCOMPAT'
    arrs = [as_array(p) for p in parts]
    if t[0] == '~':
        r = ~arrs[0]
    elif t[0] == 'multi':
        r = arrs[0].copy()
        for a in arrs[1:]:
            r = r | a
    else:
        r = BINOPS[t[0]](arrs[0], arrs[1])
    return ('mask', 'bool', tuple(r.shape), np.array(r, dtype=bool).tobytes())


class Node(object):
    __slots__ = ('tree', 'state', 'subset', 'kids', 'attr0', 'original')


def build(w, route, t):
    """Construct the selection described by `t` from FRESH leaves with the real
    operators.  Returns the root Node; node.state is the SubsetState."""
    import glue.core.subset as S
    n = Node()
    n.tree = t
    n.subset = None
    n.original = True
    if is_leaf(t):
        n.kids = []
        n.state = w.new_leaf(t)
        if route == 'subset':
            n.subset = S.Subset(w.d)
            n.subset.subset_state = n.state
        elif route == 'group':
            n.subset = w.dc.new_subset_group(subset_state=n.state)
        n.attr0 = attrs_of(n.state)
        return n
    n.attr0 = None
    members = t[2:] if t[0] == 'cm' else t[1:]
    n.kids = [build(w, route, x) for x in members]
    if route in ('subset', 'group') and t[0] != 'multi':
        ops = [k.subset for k in n.kids]
    else:
        ops = [k.state for k in n.kids]
    if t[0] == '~':
        r = ~ops[0]
    elif t[0] in BINOPS:
        r = BINOPS[t[0]](ops[0], ops[1])
    elif t[0] == 'multi':
        r = S.MultiOrState(ops)
    elif t[0] == 'cm':
        r = S.combine_multiple(ops, BINOPS[t[1]])
    else:
        raise core.EngineError('bad tree %r' % (t,))
    if isinstance(r, S.Subset):
        n.subset = r
        n.state = r.subset_state
    else:
        n.state = r
        if route == 'subset':
            n.subset = S.Subset(w.d)
            n.subset.subset_state = r
    return n


def teardown(w, root, route):
    if route == 'group':
        def rec(n):
            if is_leaf(n.tree) and n.subset is not None:
                w.dc.remove_subset_group(n.subset)
            for k in n.kids:
                rec(k)
        rec(root)


def evaluables(root):
    """[(subtree, state, role)] in post-order: the operand objects given to the
    operators and the copies that the composites hold internally."""
    import glue.core.subset as S
    out = []
    seen = set()

    def add(t, st, role):
        if id(st) not in seen:
            seen.add(id(st))
            out.append((t, st, role))

    def inner(st, t):
        # walk the real composite along the structural tree
        t = struct(t)
        if not is_leaf(t):
            if isinstance(st, S.MultiOrState) and t[0] == 'multi':
                for s2, t2 in zip(st.states, t[1:]):
                    inner(s2, t2)
            elif isinstance(st, S.CompositeSubsetState):
                inner(st.state1, t[1])
                if len(t) > 2 and st.state2 is not None:
                    inner(st.state2, t[2])
        add(t, st, 'inner')

    def rec(n):
        for k in n.kids:
            rec(k)
        add(n.tree, n.state, 'operand')
        inner(n.state, n.tree)
    rec(root)
    return out


def view_for(w):
    return {1: slice(1, 4), 2: (slice(0, 1),), 3: (slice(None), 1)}[w.nd]


SCHEDULES = ['once', 'twice', 'parts-first', 'parts-last', 'view-first', 'foreign-first', 'copy', 'attributes',
             'edit-result', 'view-forms']


def edit_leaves_of(state):
    """Edit, through their public setters / move_to, the elementary selections held INSIDE `state` (a combination or
    a copy): the user drags the region or changes the limits of the combined selection.  Returns the number of
    leaves edited."""
    import numbers
    import glue.core.subset as S

    def leaves(st):
        if isinstance(st, S.MultiOrState):
            # the many-way 'or' holds the very objects it was given (it exists to avoid the cost of chaining) and
            # its copy holds them too: its members are shared by construction and are not edited here
            return
        elif isinstance(st, S.CompositeSubsetState):
            for x in (st.state1, st.state2):
                if x is not None:
                    yield from leaves(x)
        else:
            yield st
    n = 0
    for leaf in leaves(state):
        try:
            if isinstance(leaf, S.InequalitySubsetState):
                if isinstance(leaf.right, numbers.Number):
                    leaf.right = leaf.right + 1e6
                elif isinstance(leaf.left, numbers.Number):
                    leaf.left = leaf.left + 1e6
                else:
                    continue
            elif isinstance(leaf, S.RangeSubsetState):
                leaf.lo, leaf.hi = leaf.hi + 1e6, leaf.hi + 2e6
            elif isinstance(leaf, S.MaskSubsetState):
                leaf.mask = ~np.asarray(leaf.mask)
            else:
                # region-based leaves are NOT edited: a RoiSubsetState shares its Roi object with its copies by
                # construction (copy() passes the same roi on) and move_to edits that object in place, so a
                # combination and its copies move together.  The statement speaks about combining, copying and
                # evaluating, not about later edits; DESIGN 10.6 records the observation.
                continue
            n += 1
        except Exception:      # noqa - an edit this leaf does not support
            continue
    return n


def run_schedule(w, route, t, sched):
    """Build `t` from fresh objects, evaluate according to the schedule and
    return the list of failures [(clause, what, observed, expected)]."""
    fails = []
    try:
        root = build(w, route, t)
    except core.EngineError:
        raise
    except Exception as e:      # noqa - the real operators / constructors raised
        return [('raises', 'constructing the selection: %r' % (e,), 0, 'RAISES:%s' % type(e).__name__,
                 'a selection')]
    try:
        parts = evaluables(root)
        ev_parts = [p for p in parts if p[1] is not root.state]      # operands and inner copies
        op_parts = [p for p in ev_parts if p[2] == 'operand']        # only the objects handed to the operators

        def E(tree, state, dsidx, what):
            ds = w.datasets[dsidx]
            obs = freeze(evaluate(state, ds), ds)
            exp = expected(w, tree, dsidx)
            if is_leaf(struct(tree)) and dsidx == 0 and not well_formed(obs, ds):
                # an elementary selection on its own dataset: a boolean array of the dataset's shape
                fails.append((classify(obs, None, ds), what, dsidx, obs, 'bool array of shape %s' % (ds.shape,)))
            elif exp != 'UNDEFINED' and obs != exp:
                fails.append((classify(obs, exp, ds), what, dsidx, obs, exp))
            return obs

        def P(tree, state, what):
            # the way composites evaluate their children: SubsetState.to_mask(data, view) with positional
            # arguments (a different memo key than Data.get_mask's keyword call)
            from glue.core.exceptions import IncompatibleAttribute
            try:
                m = state.to_mask(w.d, None)
            except IncompatibleAttribute:
                m = 'INCOMPAT'
            except Exception as e:      # noqa
                m = 'RAISES:%s' % type(e).__name__
            obs = freeze(m, w.d)
            exp = expected(w, tree, 0)
            if exp != 'UNDEFINED' and obs != exp:
                fails.append((classify(obs, exp, w.d), what, 0, obs, exp))

        def V(state):
            evaluate(state, w.d, view_for(w))

        R = (root.tree, root.state)
        if sched == 'once':
            E(R[0], R[1], 0, 'root')
        elif sched == 'twice':
            E(R[0], R[1], 0, 'root')
            E(R[0], R[1], 0, 'root-again')
            E(R[0], R[1], 0, 'root-third')
        elif sched == 'parts-first':
            for pt, ps, role in ev_parts:
                E(pt, ps, 0, role + '-before-root')
                P(pt, ps, role + '-before-root(to_mask)')
            E(R[0], R[1], 0, 'root-after-parts')
            for pt, ps, role in ev_parts:
                E(pt, ps, 0, role + '-after-root')
                P(pt, ps, role + '-after-root(to_mask)')
        elif sched == 'parts-last':
            E(R[0], R[1], 0, 'root')
            for pt, ps, role in ev_parts:
                E(pt, ps, 0, role + '-after-root')
            E(R[0], R[1], 0, 'root-after-parts')
        elif sched == 'view-first':
            V(R[1])
            for pt, ps, role in op_parts:
                V(ps)
            E(R[0], R[1], 0, 'root-after-view')
            for pt, ps, role in op_parts:
                E(pt, ps, 0, role + '-after-view')
        elif sched == 'foreign-first':
            E(R[0], R[1], 1, 'root-on-foreign')
            for pt, ps, role in op_parts:
                E(pt, ps, 1, role + '-on-foreign')
            E(R[0], R[1], 0, 'root-after-foreign')
            E(R[0], R[1], 1, 'root-on-foreign-again')
            for pt, ps, role in op_parts:
                E(pt, ps, 0, role + '-after-foreign')
        elif sched == 'copy':
            try:
                c1 = R[1].copy()
            except Exception as e:      # noqa
                fails.append(('raises', 'copy() raised %r' % (e,), 0, 'RAISES:%s' % type(e).__name__, 'a copy'))
                return fails
            E(R[0], c1, 0, 'copy')
            E(R[0], R[1], 0, 'root-after-copy')
            c2 = R[1].copy()
            E(R[0], c2, 0, 'copy-of-evaluated')
            E(R[0], c1, 0, 'copy-again')
            for pt, ps, role in op_parts:
                E(pt, ps, 0, role + '-after-copy')
        elif sched == 'view-forms':
            # the same numbers as a LIST view (rows 0 and 1) and as a TUPLE view (one element) mean different things
            # to numpy; asked of one selection object in both orders, each form must get the same answer as when it
            # is asked first of a fresh object (no expectation about view semantics is needed: that is C04)
            if w.nd < 2:
                return fails

            def obs_of(state, view):
                r = evaluate(state, w.d, view)
                if isinstance(r, str):
                    return r
                r = np.asarray(r)
                return [str(r.dtype), list(r.shape), r.astype(int).tolist()]
            lv, tv = [0, 1], (0, 1)
            l_first = obs_of(R[1], lv)
            t_second = obs_of(R[1], tv)
            root2 = build(w, route, t)
            try:
                t_first = obs_of(root2.state, tv)
                l_second = obs_of(root2.state, lv)
            finally:
                teardown(w, root2, route)
            if l_first != l_second:
                fails.append(('mask', 'list-view-after-tuple-view', 0, l_second, l_first))
            if t_first != t_second:
                fails.append(('mask', 'tuple-view-after-list-view', 0, t_second, t_first))
        elif sched == 'edit-result':
            # the COMBINATION (and a copy of it) is edited in place afterwards; the selections it was built from
            # are somebody else's objects and must keep selecting what they selected
            if is_leaf(struct(R[0])):
                return fails
            from glue.core.decorators import clear_all_caches
            try:
                c1 = R[1].copy()
            except Exception:      # noqa - reported by the 'copy' schedule
                c1 = None
            n_edit = edit_leaves_of(R[1])
            clear_all_caches()
            for pt, ps, role in op_parts:
                E(pt, ps, 0, role + '-after-editing-the-combination')
            if c1 is not None and n_edit:
                E(R[0], c1, 0, 'copy-taken-before-editing-the-combination')
                edit_leaves_of(c1)
                clear_all_caches()
                for pt, ps, role in op_parts:
                    E(pt, ps, 0, role + '-after-editing-a-copy')
        elif sched == 'attributes':
            # reading the combination's `attributes` (what viewers do to decide whether a subset applies)
            for pt, ps, role in parts:
                attrs_of(ps)
            E(R[0], R[1], 0, 'root-after-attributes')
            for pt, ps, role in op_parts:
                E(pt, ps, 0, role + '-after-attributes')
        else:
            raise core.EngineError('unknown schedule %r' % sched)

        # operands: same object, same attributes, same mask through their Subset
        def rec(n):
            for k in n.kids:
                rec(k)
            if is_leaf(n.tree):
                a1 = attrs_of(n.state)
                if a1 != n.attr0 or a1 != w.leaf_attr(n.tree):
                    fails.append(('operand-altered', 'attributes of %s' % n.tree, 0,
                                  'now %s ids' % (a1 if isinstance(a1, str) else len(a1)),
                                  '%s ids, as before combining' % (n.attr0 if isinstance(n.attr0, str)
                                                                   else len(n.attr0))))
            if n.subset is not None:
                if n.subset.subset_state is not n.state:
                    fails.append(('operand-altered', 'subset_state-replaced', 0, None, None))
        rec(root)
    finally:
        teardown(w, root, route)
    return fails


def classify(obs, exp, data):
    if isinstance(obs, str) and obs.startswith('RAISES'):
        return 'raises'
    if isinstance(obs, str) and obs.startswith('NOT-ARRAY'):
        return 'dtype'
    if obs == 'INCOMPAT' or exp == 'INCOMPAT':
        return 'incompatible'
    if obs[2] != tuple(data.shape):
        return 'shape'
    if obs[1] != 'bool':
        return 'dtype'
    return 'mask'


def check_tree(dkey, route, t, schedules=SCHEDULES, palette=None):
    """All failures of one tree: [(clause, schedule, what, observed, expected)].

    clause: for the plain single evaluation ('once') what is wrong with the result (mask / shape / dtype /
    raises / incompatible).  Under the other schedules, on the selection's own dataset: 'operand-altered' if an
    operand object no longer evaluates to its own mask or reports other `attributes`, 'order' if the selection
    or a part held inside it evaluates differently, 'copy' if a copy does; on the foreign dataset:
    'incompatible' / 'foreign-mask';
    'data-altered' if the datasets themselves changed.  If 'once' already fails the other schedules are not
    run (they would only repeat it)."""
    out = []
    for sched in schedules:
        core.reset_globals()
        w = world(dkey, palette=palette)
        got = []
        for clause, what, dsidx, obs, exp in run_schedule(w, route, t, sched):
            if clause == 'operand-altered' or sched == 'once':
                c2 = clause
            elif dsidx == 1:
                c2 = clause if clause in ('incompatible', 'raises') else 'foreign-' + clause
            elif what.startswith('operand'):
                c2 = 'operand-altered'
            elif what.startswith('copy'):
                c2 = 'copy'
            else:
                c2 = 'order'
            got.append((c2, sched, what, obs, exp))
        if any(g[0] == 'operand-altered' and g[2].startswith('attributes') for g in got):
            # what is evaluated after the operands' attribute lists were clobbered is a consequence
            got = [g for g in got if g[0] == 'operand-altered' and g[2].startswith('attributes')]
        if w.snapshot() != w.pristine:
            if not any(g[0] == 'operand-altered' for g in got):
                got.append(('data-altered', sched, 'datasets', 'component id lists / arrays changed', 'unchanged'))
            world(dkey, fresh=True, palette=palette)
        out += got
        if sched == 'once' and out:
            break
    return out


NEUTRAL = ['RangeSubsetState:pix', 'MultiRangeSubsetState:i', 'InequalitySubsetState:i.ne.dv']


def subtrees(t):
    if is_leaf(t):
        return
    for x in (t[2:] if t[0] == 'cm' else t[1:]):
        yield x
        for y in subtrees(x):
            yield y


def replace_leaf(t, pos, new, _ctr=None):
    """Replace the pos-th leaf (in leaves_of order)."""
    ctr = _ctr if _ctr is not None else [0]
    if is_leaf(t):
        k = ctr[0]
        ctr[0] += 1
        return new if k == pos else t
    head = t[:2] if t[0] == 'cm' else t[:1]
    rest = t[2:] if t[0] == 'cm' else t[1:]
    return list(head) + [replace_leaf(x, pos, new, ctr) for x in rest]


def fails_same(dkey, route, t, clause, sched, palette=None):
    scheds = ['once'] if sched == 'once' else ['once', sched]
    return any(f[0] == clause and f[1] == sched for f in check_tree(dkey, route, t, scheds, palette))


CATEGORY = {'~': 'composite', '&': 'composite', '|': 'composite', '^': 'composite', 'multi': 'multi-or',
            'cm': 'combine_multiple'}
ROOTCLASS = {'~': 'InvertState', '&': 'AndState', '|': 'OrState', '^': 'XorState', 'multi': 'MultiOrState'}


def signature(dkey, route, t, clause, sched):
    """Class signature of a failure: smallest failing subtree, with the leaves
    that do not matter generalised away."""
    cur = t
    changed = True
    while changed:
        changed = False
        for s in subtrees(cur):
            if fails_same(dkey, route, s, clause, sched):
                cur = s
                changed = True
                break
    if is_leaf(cur):
        return cur, '%s|%s|%s|alone|%s' % (clause, sched, route, cur.split(':')[0])
    lv = leaves_of(cur)
    relevant = []
    for pos, leaf in enumerate(lv):
        # the leaf matters if the failure disappears for every neutral substitute
        if not any(fails_same(dkey, route, replace_leaf(cur, pos, x), clause, sched) for x in NEUTRAL if x != leaf):
            relevant.append(leaf.split(':')[0])
    if relevant:
        return cur, '%s|%s|%s|under-%s|%s' % (clause, sched, route, CATEGORY[cur[0]],
                                              '+'.join(sorted(set(relevant))))
    rc = ROOTCLASS.get(cur[0]) or 'combine_multiple[%s]' % cur[1]
    return cur, '%s|%s|%s|%s|any-leaf' % (clause, sched, route, rc)


# ---------------------------------------------------------------------------
# enumeration of tree cases
# ---------------------------------------------------------------------------

# representative leaves, one per implementation family; the first four are used by the quick tier:
# memoised value leaf / non-memoised value leaf / pixel-space shortcut (mask, broadcast ROI) / identity-bound or
# view-shortcut leaf; then a memoised categorical leaf and a slice leaf
REPS = {'d1': ['InequalitySubsetState:f.gt.num', 'RangeSubsetState:dv', 'MaskSubsetState:pix',
               'ElementSubsetState:free', 'CategorySubsetState:c', 'SliceSubsetState:a'],
        'd2': ['InequalitySubsetState:f.gt.num', 'RangeSubsetState:dv', 'RoiSubsetState:circ.pix',
               'SliceSubsetState:b', 'CategoricalROISubsetState:c', 'ElementSubsetState:bound'],
        'd3': ['InequalitySubsetState:i.le.dv', 'MultiRangeSubsetState:f', 'RoiSubsetState:circ.pix',
               'FloodFillSubsetState:i', 'CategorySubsetState:c', 'SliceSubsetState:a']}
NREPS = {'quick': 4, 'thorough': 6}


def depth1(leaves, leaves2=None):
    """All trees of depth exactly 1 with operands from leaves (x leaves2)."""
    leaves2 = leaves if leaves2 is None else leaves2
    out = [['~', a] for a in leaves]
    for op in '&|^':
        out += [[op, a, b] for a in leaves for b in leaves2]
    return out


def upto(leaves, depth):
    """All trees of depth <= depth over ~ & | ^."""
    level = list(leaves)
    for _ in range(depth):
        prev = level
        level = list(leaves) + [['~', a] for a in prev]
        for op in '&|^':
            level += [[op, a, b] for a in prev for b in prev]
        level = _uniq(level)
    return level


def _uniq(items):
    seen = set()
    out = []
    for t in items:
        k = repr(t)
        if k not in seen:
            seen.add(k)
            out.append(t)
    return out


def exactly(leaves, depth):
    return [t for t in upto(leaves, depth) if depth_of(t) == depth]


def tree_families(tier, dkey, L):
    """name -> [(route, tree)]: the complete families enumerated for one dataset."""
    reps = REPS[dkey][:NREPS[tier]]
    r6 = REPS[dkey]
    r4 = REPS[dkey][:4]
    fam = {}
    # depth 0 and depth 1 over ALL ordered leaf pairs
    fam['leaf-alone'] = [('state', a) for a in L]
    fam['depth1-all-pairs'] = [('state', t) for t in depth1(L)]
    # Subset.__and__/... and SubsetGroup.__and__/...: every leaf kind against the representatives, both orders
    fam['depth1-Subset-operators'] = [('subset', t) for t in _uniq(depth1(L, r4) + depth1(r4, L))]
    fam['depth1-SubsetGroup-operators'] = [('group', t) for t in _uniq(depth1(L, r4[:2]) + depth1(r4[:2], L))]
    # n-ary or: 1 and 2 members over all leaves, 3 members over the representatives
    fam['MultiOr-1..3'] = [('state', ['multi', a]) for a in L] + \
                          [('state', ['multi', a, b]) for a in L for b in L] + \
                          [('state', ['multi', a, b, c]) for a in r6 for b in r6 for c in r6]
    fam['combine_multiple-0..3'] = [('state', ['cm', op]) for op in '&|^'] + \
                                   [('state', ['cm', op, a]) for op in '&|^' for a in L] + \
                                   [('state', ['cm', op, a, b, c]) for op in '&|^' for a in r4 for b in r4 for c in r4]
    fam['combine_multiple-Subsets'] = [('subset', ['cm', op, a]) for op in '&|^' for a in r4] + \
                                      [('subset', ['cm', op, a, b]) for op in '&|^' for a in r4 for b in r4] + \
                                      [('subset', ['cm', op, a, b, c]) for op in '&|^'
                                       for a in r4[:3] for b in r4[:3] for c in r4[:3]]
    # depth 2: complete over the representatives
    d1r = upto(reps, 1)
    fam['depth2-complete-over-reps'] = [('state', t) for t in exactly(reps, 2)]
    fam['MultiOr-of-depth1'] = [('state', ['multi', a, b]) for a in d1r for b in d1r
                                if not (is_leaf(a) and is_leaf(b))]
    m2 = [['multi', a, b] for a in r4[:3] for b in r4[:3]]
    fam['operators-over-MultiOr'] = [('state', t) for t in depth1(m2 + r4[:2])
                                     if not all(is_leaf(x) for x in t[1:])]
    if tier == 'thorough':
        fam['depth2-Subset-operators'] = [('subset', t) for t in exactly(r4, 2)]
        # every leaf kind nested at depth 2, next to the first two representatives
        inner = _uniq(depth1(L, r6) + depth1(r6, L))
        nested = []
        for t in inner:
            nested.append(('state', ['~', t]))
            for op in '&|^':
                for r in r6[:2]:
                    nested.append(('state', [op, t, r]))
                    nested.append(('state', [op, r, t]))
        fam['depth2-every-leaf-kind-nested'] = nested
        # depth 3: complete over a single leaf (for two leaves of different families), and all
        # depth-3 "spines" (op of a depth-2 tree over two leaves and a leaf)
        d3 = []
        for leaf in r6[:2]:
            d3 += [('state', t) for t in exactly([leaf], 3)]
        fam['depth3-complete-single-leaf'] = d3
        d2two = exactly(r6[:2], 2)
        fam['depth3-spines'] = [('state', ['~', t]) for t in d2two] + \
                               [('state', [op, t, r]) for op in '&|^' for t in d2two for r in r6[:2]] + \
                               [('state', [op, r, t]) for op in '&|^' for t in d2two for r in r6[:2]]
    return fam


def tree_cases(tier, names_by_dkey):
    """([dkey, route, tree], {family: count}) - the complete product for the tier."""
    cases = []
    sizes = {}
    seen = set()
    for dkey in DKEYS:
        L = names_by_dkey[dkey]
        for r in REPS[dkey] + NEUTRAL:
            if r not in L:
                raise core.EngineError('representative leaf %s missing for %s' % (r, dkey))
        for name, items in tree_families(tier, dkey, L).items():
            sizes['%s/%s' % (dkey, name)] = len(items)
            for route, t in items:
                k = (dkey, route, repr(t))
                if k not in seen:          # the families overlap
                    seen.add(k)
                    cases.append([dkey, route, t])
    return cases, sizes


def depth_of(t):
    if is_leaf(t):
        return 0
    kids = t[2:] if t[0] == 'cm' else t[1:]
    return 1 + max([depth_of(x) for x in kids] or [0])


def schedules_for(route, t):
    """The fixed schedule set per kind of case: the Subset / SubsetGroup operators only delegate to the
    state operators, and depth-3 trees use the schedules that matter for nested memoisation."""
    if route != 'state':
        return ['once', 'parts-last']
    if depth_of(t) >= 3:
        return ['once', 'parts-first', 'parts-last', 'copy', 'edit-result', 'view-forms']
    return SCHEDULES


# ---------------------------------------------------------------------------
# edit modes
# ---------------------------------------------------------------------------

MODES = ['Replace', 'And', 'Or', 'Xor', 'AndNot', 'New']
NSTATES = 4
EDIT_VARIANTS = ['every', 'end']


class EditWorld(object):
    """2-dataset collection (1-d and 2-d, linked on x) + EditSubsetMode + 3 new states."""

    def __init__(self):
        from glue.core import Data, DataCollection
        from glue.core.link_helpers import LinkSame
        from glue.core.edit_subset_mode import EditSubsetMode
        import glue.core.edit_subset_mode as E
        import glue.core.subset as S
        k = core.seed() % 3
        self.da = Data(x=np.array(_roll(_F, k, 5)), y=np.array(_roll(_I, k, 5)), label='A')
        self.db = Data(x=np.array(_roll(_F, k + 3, 6)).reshape(2, 3),
                       z=np.array(_roll(_I, k + 1, 6)).reshape(2, 3), label='B')
        self.dc = DataCollection([self.da, self.db])
        self.dc.add_link(LinkSame(self.da.id['x'], self.db.id['x']))
        self.datasets = [self.da, self.db]
        self.esm = EditSubsetMode()
        self.esm.data_collection = self.dc
        self.modes = dict(Replace=E.ReplaceMode, And=E.AndMode, Or=E.OrMode, Xor=E.XorMode,
                          AndNot=E.AndNotMode, New=E.NewMode)
        self.S = S
        self.states = [self.new_state(i) for i in range(NSTATES)]

    def new_state(self, i):
        S = self.S
        if i == 0:
            return S.InequalitySubsetState(self.da.id['x'], 1.0, operator.gt)   # both datasets (link)
        if i == 1:
            return S.RangeSubsetState(1, 3, self.db.id['z'])                     # incompatible with A
        if i == 3:
            return S.RangeSubsetState(1, 3, self.da.id['y'])                     # SAME limits as 1, other attribute
        return S.ElementSubsetState(indices=[0, 3])                             # any dataset


def edit_run(seq, variant, verbose=False):
    """Execute one sequence on a fresh world; return (failures, nontrivial)."""
    core.reset_globals()
    w = EditWorld()
    twins = [[freeze(evaluate(w.new_state(i), ds), ds) for ds in w.datasets] for i in range(NSTATES)]
    groups = []       # model: list of [obs per dataset]
    edit = None
    fails = []
    nontrivial = False
    for step, (mode, k) in enumerate(seq):
        last = step == len(seq) - 1
        if mode == 'Fresh':
            # a group created empty (default state) and picked as the subset to edit - what "new subset" in the
            # application does before the first region is drawn
            try:
                g = w.dc.new_subset_group()
                w.esm.edit_subset = [g]
            except Exception as e:      # noqa
                fails.append(('edit-raises', '%s: %r' % (type(e).__name__, e), 'no exception'))
                break
            groups.append([freeze(np.zeros(ds.shape, dtype=bool), ds) for ds in w.datasets])
            edit = len(groups) - 1
            if variant == 'every' or last:
                fails += edit_check(w, groups, edit, twins)
                if fails:
                    break
            continue
        w.esm.mode = w.modes[mode]
        try:
            w.esm.update(w.dc, w.states[k])
        except Exception as e:      # noqa
            fails.append(('edit-raises', '%s: %r' % (type(e).__name__, e), 'no exception'))
            break
        new = twins[k]
        if edit is None or mode == 'New':
            groups.append(list(new))
            edit = len(groups) - 1
        else:
            groups[edit] = [fold(mode, c, n) for c, n in zip(groups[edit], new)]
        if variant == 'every' or last:
            fails += edit_check(w, groups, edit, twins)
            if verbose:
                print('  step %d %s:%d -> %s' % (step, mode, k, 'FAIL' if fails else 'ok'))
            if fails:
                break
        if last:
            for o in groups[edit]:
                if isinstance(o, tuple):
                    a = as_array(o)
                    nontrivial = nontrivial or (a.any() and not a.all())
    return fails, nontrivial and len(seq) >= 2


def fold(mode, cur, new):
    if mode == 'Replace':
        return new
    if isinstance(cur, str) or isinstance(new, str):
        for x in (cur, new):
            if isinstance(x, str) and x != 'INCOMPAT':
                return 'UNDEFINED'
        return 'INCOMPAT'
    a, b = as_array(cur), as_array(new)
    r = {'And': a & b, 'Or': a | b, 'Xor': a ^ b, 'AndNot': a & ~b}[mode]
    return ('mask', 'bool', tuple(r.shape), np.array(r, dtype=bool).tobytes())


def edit_check(w, groups, edit, twins):
    fails = []
    real = list(w.dc.subset_groups)
    if len(real) != len(groups):
        fails.append(('edit-group-count', len(real), len(groups)))
        return fails
    es = w.esm.edit_subset
    es = list(es) if isinstance(es, (list, tuple)) else [es]
    if len(es) != 1 or es[0] is not real[edit]:
        fails.append(('edit-subset', [real.index(g) if g in real else repr(g) for g in es], [edit]))
        return fails
    for gi, g in enumerate(real):
        for di, ds in enumerate(w.datasets):
            subs = [s for s in g.subsets if s.data is ds]
            if len(subs) != 1:
                fails.append(('edit-group-count', 'group %d has %d subsets on %s' % (gi, len(subs), ds.label),
                              'exactly one'))
                continue
            from glue.core.exceptions import IncompatibleAttribute
            try:
                obs = freeze(subs[0].to_mask(), ds)
            except IncompatibleAttribute:
                obs = 'INCOMPAT'
            except Exception as e:      # noqa
                obs = 'RAISES:%s' % type(e).__name__
            exp = groups[gi][di]
            if exp != 'UNDEFINED' and obs != exp:
                fails.append(('edit-mask' if gi == edit else 'edit-other-group',
                              dict(group=gi, data=ds.label, mask=show(obs)),
                              dict(group=gi, data=ds.label, mask=show(exp))))
    for k in range(NSTATES):
        for di, ds in enumerate(w.datasets):
            obs = freeze(evaluate(w.states[k], ds), ds)
            if obs != twins[k][di]:
                fails.append(('edit-operand-altered', dict(state=k, data=ds.label, mask=show(obs)),
                              dict(state=k, data=ds.label, mask=show(twins[k][di]))))
    return fails


_edit_memo = {}


def edit_fails(seq, variant, clause):
    k = (variant, clause, repr(seq))
    if k not in _edit_memo:
        _edit_memo[k] = any(f[0] == clause for f in edit_run(seq, variant)[0])
    return _edit_memo[k]


def edit_minimise(seq, variant, clause):
    seq = [list(x) for x in seq]
    changed = True
    while changed and len(seq) > 1:
        changed = False
        for i in range(len(seq) - 1, -1, -1):
            cand = seq[:i] + seq[i + 1:]
            if cand and edit_fails(cand, variant, clause):
                seq = cand
                changed = True
                break
    # canonical representative: the first mode (MODES order) and the lowest state index that still fail,
    # position by position - so the ops that do not matter read Replace:0
    for i in range(len(seq)):
        for m in MODES:
            if m == seq[i][0]:
                break
            cand = [list(x) for x in seq]
            cand[i][0] = m
            if edit_fails(cand, variant, clause):
                seq = cand
                break
        for k in range(NSTATES):
            if k < seq[i][1]:
                cand = [list(x) for x in seq]
                cand[i][1] = k
                if edit_fails(cand, variant, clause):
                    seq = cand
                    break
    return seq


def edit_cases(tier):
    """Shards: ['edit', length, variant, first op, second op or None]; the worker enumerates the rest."""
    lmax = 3 if tier == 'quick' else 4
    ops = [[m, k] for m in MODES for k in range(NSTATES)] + [['Fresh', 0]]
    out = []
    for variant in EDIT_VARIANTS:
        for n in range(1, lmax + 1):
            if variant == 'end' and n == 1:
                continue           # identical to 'every' for a single step
            if n == 1:
                out += [['edit', n, variant, [a]] for a in ops]
            else:
                out += [['edit', n, variant, [a, b]] for a in ops for b in ops]
    return out


def do_edit(res, case):
    _, n, variant, head = case
    ops = [[m, k] for m in MODES for k in range(NSTATES)] + [['Fresh', 0]]
    for tail in itertools.product(ops, repeat=n - len(head)):
        seq = [list(x) for x in head] + [list(x) for x in tail]
        fails, nontrivial = edit_run(seq, variant)
        res.count('edit_sequences')
        res.case(sig=('edit', variant, core.jdump(seq)) if nontrivial else None,
                 sample=dict(kind='edit', variant=variant, seq=seq) if n >= 3 else None)
        for f in fails[:1]:
            clause = f[0]
            mseq = edit_minimise(seq, variant, clause)
            key = '%s|%s|%s' % (clause, variant, '>'.join('%s:%d' % (m, k) for m, k in mseq))
            res.violation(clause, key, dict(kind='edit', variant=variant, seq=mseq, found_at=seq),
                          f[1], f[2])


# ---------------------------------------------------------------------------
# workers
# ---------------------------------------------------------------------------

_worlds = {}


def world(dkey, fresh=False, palette=None):
    k = (dkey, palette)
    if fresh or k not in _worlds:
        _worlds[k] = World(dkey, palette)
    return _worlds[k]


_bad_leaf = {}


def defective_alone(dkey, leaf):
    """Does this elementary selection already violate the property on its own (evaluated alone / copied)?"""
    k = (dkey, leaf)
    if k not in _bad_leaf:
        _bad_leaf[k] = bool(check_tree(dkey, 'state', leaf, ['once', 'copy']))
    return _bad_leaf[k]


def do_tree(res, case, tier):
    dkey, route, t = case
    res.count('trees')
    if not is_leaf(t):
        bad = sorted(set(x.split(':')[0] for x in leaves_of(t) if defective_alone(dkey, x)))
        if bad:
            # like states behind a violating state in a history search: reported once, at the leaf
            res.case()
            res.count('trees_pruned_behind_defective_leaf')
            for b in bad:
                res.count('trees_pruned_behind_defective_leaf[%s]' % b)
            return
    fails = check_tree(dkey, route, t, schedules_for(route, t))
    w = world(dkey)
    exp = expected(w, t, 0)
    nontriv = (not is_leaf(t)) and isinstance(exp, tuple) and as_array(exp).any() and not as_array(exp).all()
    res.case(sig=(dkey, route, repr(t)) if nontriv else None,
             sample=dict(kind='tree', data=dkey, route=route, tree=tree_str(t)) if depth_of(t) >= 2 else None)
    if exp == 'UNDEFINED':
        res.count('trees_with_undefined_expectation')
    done = set()
    for clause, sched, what, obs, expd in fails:
        # one report per clause and tree: under the first schedule (in SCHEDULES order) that shows it
        if clause in done:
            continue
        done.add(clause)
        mt, key = signature(dkey, route, t, clause, sched)
        res.violation(clause, key, dict(kind='tree', data=dkey, route=route, tree=mt, schedule=sched,
                                        found_at=t, palette=w.palette),
                      dict(at=what, got=show(obs)), show(expd), tree_str(mt))


def work(shard):
    tier, cases = shard
    core.bind()
    res = core.Result()
    for c in cases:
        if c[0] == 'edit':
            do_edit(res, c)
        else:
            do_tree(res, c, tier)
    return res


def leaf_names():
    return dict((dkey, sorted(World(dkey).leaves)) for dkey in DKEYS)


def run(tier):
    t0 = time.time()
    core.bind()
    cc = class_coverage()
    names = leaf_names()
    trees, family_sizes = tree_cases(tier, names)
    edits = edit_cases(tier)
    # interleave heavy edit shards with the trees; trees in chunks so that the case list stays small
    chunk = 40
    tchunks = [trees[i:i + chunk] for i in range(0, len(trees), chunk)]
    items = core.rotate([('T', c) for c in tchunks] + [('E', e) for e in edits])
    nsh = core.jobs() * 8
    shards = []
    for s in core.split(items, nsh):
        flat = []
        for kind, c in s:
            if kind == 'T':
                flat.extend(c)
            else:
                flat.append(c)
        shards.append((tier, flat))
    total = core.run_shards(work, shards)
    by = {}
    for dkey, route, t in trees:
        k = '%s/%s/depth%d' % (dkey, route, depth_of(t))
        by[k] = by.get(k, 0) + 1
    lmax = 3 if tier == 'quick' else 4
    dims = dict(datasets=dict((k, list(v)) for k, v in SHAPES.items()),
                leaves_per_dataset=dict((k, len(v)) for k, v in names.items()),
                leaf_names=names, trees=len(trees), trees_by_dataset_route_depth=by,
                tree_families=family_sizes, representatives=dict((k, v[:NREPS[tier]]) for k, v in REPS.items()),
                schedules=SCHEDULES, schedules_subset_and_group_routes=schedules_for('subset', 'x'),
                schedules_depth3=schedules_for('state', ['~', ['~', ['~', 'x']]]),
                routes=['state', 'subset', 'group'],
                edit_modes=MODES, edit_new_states=NSTATES, edit_max_length=lmax,
                edit_variants=EDIT_VARIANTS,
                edit_sequences=sum(len(MODES * NSTATES) ** n for n in range(1, lmax + 1)) * 2 - len(MODES) * NSTATES)
    cov = dict(product_dimensions=dims, subset_state_classes=cc)
    if cc['coverage_gaps']:
        cov['coverage_gap_note'] = ('SubsetState subclasses WITHOUT a leaf factory (not exercised by this check): %s'
                                    % ', '.join(cc['coverage_gaps']))
        total.notes.append(cov['coverage_gap_note'])
        print('C01 COVERAGE-GAP: no leaf factory for %s' % ', '.join(cc['coverage_gaps']))
    return core.finish(
        PROP, tier, total, 'exploration', RULE, t0, coverage=cov, confirm=confirm,
        assumptions=[
            'membership masks of elementary selections are taken from the real leaf evaluated alone (a fresh twin); '
            'what an elementary selection selects is outside this property',
            'CategoricalROISubsetState2D and CategoricalMultiRangeSubsetState are exercised on the 1-d dataset only '
            '(their evaluation iterates over len(values))',
            'no key joins and no links between the dataset and the foreign dataset; a composite over an '
            'incompatible part must raise IncompatibleAttribute',
            'views are used only as earlier evaluations (what a view returns is C04)',
            'states are not mutated through setters / move_to after construction (that is C05)',
            'edit modes: one edited subset group at a time (the group created by the first update / by New); '
            'multi-selection of edit subsets is not enumerated',
            'operand immutability is behavioural: own mask on every dataset and `attributes`; bookkeeping '
            'attributes such as new_state.parent are not compared',
            'depth-1 trees are complete over all ordered leaf pairs; depth-2 trees are complete over 4 (quick) / 6 '
            '(thorough) representative leaves per dataset (thorough: plus every leaf kind nested once); depth-3 '
            'trees (thorough) are complete over a single leaf and over spines of two leaves; array sizes and '
            'values bounded as listed',
            'a tree that contains an elementary selection which already violates the property on its own '
            '(e.g. its copy() is not faithful) is not evaluated; the violation is reported at the leaf'])


# ---------------------------------------------------------------------------
# confirm / replay
# ---------------------------------------------------------------------------

def _reexec(case, key, verbose):
    core.bind()
    if case['kind'] == 'edit':
        fails, _ = edit_run(case['seq'], case['variant'], verbose=verbose)
        clause = key.split('|')[0]
        hit = [f for f in fails if f[0] == clause]
        if verbose:
            for f in hit[:1]:
                print('  sequence %s (%s)' % (case['seq'], case['variant']))
                print('  observed', core._clip(f[1]))
                print('  expected', core._clip(f[2]))
        return bool(hit)
    clause, sched = key.split('|')[0], case['schedule']
    pal = case.get('palette')
    world(case['data'], fresh=True, palette=pal)
    scheds = ['once'] if sched == 'once' else ['once', sched]
    fails = [f for f in check_tree(case['data'], case['route'], case['tree'], scheds, pal)
             if f[0] == clause and f[1] == sched]
    if verbose:
        print('  tree %s  route=%s schedule=%s data=%s' % (tree_str(case['tree']), case['route'], sched,
                                                         case['data']))
        for f in fails[:1]:
            print('  at', f[2], 'observed', core._clip(show(f[3])))
            print('  expected', core._clip(show(f[4])))
    return bool(fails)


def confirm(v):
    return _reexec(v['case'], v['key'], False)


def replay(doc):
    return _reexec(doc['case'], doc['key'], True)
