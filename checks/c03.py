"""C03 - linked attributes are reachable exactly through links and carry composed values.

Mode H: BFS over histories of add/remove link, remove/re-add component, remove/re-append dataset and
delayed link-manager updates on a real DataCollection, in lock-step with a breadth-first reachability
model.  Hidden-parameter family: every attribute is a_i * t + b_i of a hidden per-row parameter t and
every link is the exact affine map between its endpoints, so every chain gives the same value and the
expected value does not depend on the order in which Python iterates sets of links.  A second scenario
adds one deliberately inconsistent link to test the 'shortest chain' clause with a unique answer."""
import time
import itertools

import numpy as np

from mc import core, hist

PROP = 'C03'

T = np.array([0., 1., 2., 3.])


def coef(i, j):
    # distinct slope/offset per attribute; c21 == c01 so that an identity link is exact
    if (i, j) == (2, 1):
        return coef(0, 1)
    k = 2 * i + j
    return (k + 2.0, 3.0 * k - 4.0)


class World(object):

    def __init__(self, scn):
        from glue.core import Data, DataCollection, ComponentID
        from glue.core.component_link import ComponentLink
        from glue.core.link_helpers import LinkSame, LinkTwoWay, MultiLink
        self.violations = []
        n = scn.ndata
        self.D = []
        self.cid = {}
        self.coef = {}
        for i in range(n):
            comps = {}
            for j in range(2):
                a, b = coef(i, j)
                comps['c%d%d' % (i, j)] = a * T + b
            d = Data(label='d%d' % i, **comps)
            self.D.append(d)
            for j in range(2):
                c = d.id['c%d%d' % (i, j)]
                self.cid['c%d%d' % (i, j)] = c
                self.coef['c%d%d' % (i, j)] = coef(i, j)
            self.cid['p%d' % i] = d.pixel_component_ids[0]
            self.coef['p%d' % i] = (1.0, 0.0)
        # an extra component on d0 that no link touches
        self.D[0].add_component(T * 7 + 1, 'n0')
        self.cid['n0'] = self.D[0].id['n0']
        self.coef['n0'] = (7.0, 1.0)
        # an INTERNAL derived attribute of d0 (g0 = c00 * 1.0): links can end on it, and removing its parent c00
        # removes it as well
        dcomp = self.D[0].add_component_link(self.cid['c00'] * 1.0, 'g0')
        self.cid['g0'] = dcomp.link.get_to_id()
        self.coef['g0'] = coef(0, 0)
        self.internal = [(['c00'], 'g0', 0.0)]       # atomic links owned by a dataset (active while it is in the collection)
        self.derived_of = {'c00': ['g0']}
        # ... and an internal derived attribute defined by an INVERTIBLE link (h0 from c01, with an inverse
        # function): whoever reaches h0 also reaches c01 through the inverse of the dataset's own link
        self.coef['h0'] = (3.0, -2.0)
        (ha, hb), (ca, cb) = self.coef['h0'], coef(0, 1)
        hlink = ComponentLink([self.cid['c01']], ComponentID('h0', parent=self.D[0]),
                              using=lambda x: (x - cb) / ca * ha + hb, inverse=lambda y: (y - hb) / ha * ca + cb)
        self.cid['h0'] = self.D[0].add_component_link(hlink).link.get_to_id()
        self.internal.append((['c01'], 'h0', 0.0))
        self.internal_inv = [(['h0'], 'c01', None)]
        self.derived_of['c01'] = ['h0']
        self.owner = {name: int(name[1]) for name in self.cid}
        self.present = set(self.cid)          # components currently in their dataset
        self.inv_cid = {id(c): n for n, c in self.cid.items()}

        def aff(src, dst, bias=0.0):
            (a1, b1), (a2, b2) = self.coef[src], self.coef[dst]
            return lambda x: (x - b1) / a1 * a2 + b2 + bias

        def two(src1, src2, dst):
            (a1, b1), (a3, b3) = self.coef[src1], self.coef[dst]
            return lambda x, y: (x - b1) / a1 * a3 + b3 + 0 * y

        c = self.cid
        self.links = {}
        self.atoms = {}     # link name -> list of (from names, to name, bias)

        def one(name, src, dst, bias=0.0, inverse=False):
            kw = {}
            if inverse:
                kw['inverse'] = aff(dst, src, -bias * self.coef[src][0] / self.coef[dst][0])
            self.links[name] = ComponentLink([c[src]], c[dst], using=aff(src, dst, bias), **kw)
            self.atoms[name] = [([src], dst, bias)]
            if inverse:
                self.atoms[name].append(([dst], src, None))

        one('a', 'c00', 'c10')                                   # one-way d0 -> d1
        self.links['b'] = LinkTwoWay(c['c11'], c['c20'], aff('c11', 'c20'), aff('c20', 'c11'))
        self.atoms['b'] = [(['c11'], 'c20', 0.0), (['c20'], 'c11', 0.0)]
        self.links['c'] = LinkSame(c['c01'], c['c21'])           # identity, two-way
        self.atoms['c'] = [(['c01'], 'c21', 0.0), (['c21'], 'c01', 0.0)]
        self.links['d'] = ComponentLink([c['c10'], c['c11']], c['c00'], using=two('c10', 'c11', 'c00'))
        self.atoms['d'] = [(['c10', 'c11'], 'c00', 0.0)]         # two inputs d1 -> d0
        one('e', 'c20', 'c00')                                   # closes a cycle d2 -> d0
        one('f', 'c10', 'c11', inverse=True)                     # inside d1, with an inverse function
        one('g', 'p0', 'c20')                                    # from a pixel attribute
        # a MultiLink with two inputs and two outputs in both directions (four atomic links)
        def fwd(p, q):
            return aff('c00', 'c20')(p), aff('c00', 'c21')(p) + 0 * q

        def bwd(p, q):
            return aff('c20', 'c00')(p), aff('c20', 'c01')(p) + 0 * q
        self.links['m'] = MultiLink([c['c00'], c['c01']], [c['c20'], c['c21']], forwards=fwd, backwards=bwd)
        self.atoms['m'] = [(['c00', 'c01'], 'c20', 0.0), (['c00', 'c01'], 'c21', 0.0),
                           (['c20', 'c21'], 'c00', 0.0), (['c20', 'c21'], 'c01', 0.0)]
        # an ASYMMETRIC two-way MultiLink: two inputs, one output, and a backwards function that returns both inputs
        def fwd1(p, q):
            return aff('c00', 'c20')(p) + 0 * q

        def bwd2(r):
            return aff('c20', 'c00')(r), aff('c20', 'c01')(r)
        self.links['n'] = MultiLink([c['c00'], c['c01']], [c['c20']], forwards=fwd1, backwards=bwd2)
        self.atoms['n'] = [(['c00', 'c01'], 'c20', 0.0), (['c20'], 'c00', 0.0), (['c20'], 'c01', 0.0)]
        if n > 3:
            one('h', 'c30', 'c01')
            self.links['i'] = LinkTwoWay(c['c31'], c['c10'], aff('c31', 'c10'), aff('c10', 'c31'))
            self.atoms['i'] = [(['c31'], 'c10', 0.0), (['c10'], 'c31', 0.0)]
            one('j', 'c21', 'c30')
        # inconsistent detour scenario: x is a direct d0 -> c20 link that is off by +100;
        # the exact route c00 -> c10 (a), c10 -> c20 (y) has depth 2.
        self.links['k'] = LinkTwoWay(c['g0'], c['c21'], aff('g0', 'c21'), aff('c21', 'g0'))   # on the derived attribute
        self.atoms['k'] = [(['g0'], 'c21', 0.0), (['c21'], 'g0', 0.0)]
        one('x', 'c01', 'c20', bias=100.0)
        one('y', 'c10', 'c20')
        # a TWO-input link whose inputs lie at unequal depths from d0 (c01: own, c20: two links away) and which is off
        # by +100; the exact route c00 -> c10 (a) -> c11 (f) is shorter than the true depth (3) of this one
        fw = aff('c01', 'c11', 100.0)
        self.links['w'] = ComponentLink([c['c01'], c['c20']], c['c11'], using=lambda x, y: fw(x) + 0 * y)
        self.atoms['w'] = [(['c01', 'c20'], 'c11', 100.0)]
        one('z', 'c21', 'h0')                                    # one-way d2 -> the invertibly derived attribute
        self.names = scn.link_names
        self.dc = DataCollection(list(self.D))
        self.in_dc = set(range(n))
        self.registered = []
        self.delay = []
        self.hdelay = []


class Scenario(object):

    def __init__(self, ndata, link_names, comps=('c11', 'n0', 'c20'), data=(1, 2), delay=True):
        self.ndata = ndata
        self.link_names = link_names
        self.comps = comps
        self.data = data
        self.delay = delay

    def new_world(self):
        return World(self)

    def opname(self, op):
        return ':'.join(str(x) for x in op)

    def enabled(self, w):
        ops = []
        for n in w.names:
            if self.delay == 'hub' and n not in w.registered and \
                    (w.hdelay or not all(x in w.present for src, dst, _ in w.atoms[n] for x in list(src) + [dst])):
                # (hub-delay scenario) nothing is ADDED while the hub queues messages, and no link to a component
                # that is gone: the manager hears of a removal only when the block ends, i.e. after whatever was
                # registered in between - an ordering the statement ("immediately") does not speak about
                continue
            ops.append(['rm_link' if n in w.registered else 'add_link', n])
        for cn in self.comps:
            if cn in w.present:
                ops.append(['rm_comp', cn])
            elif cn not in ('g0', 'h0') and not w.hdelay:   # a removed derived attribute is not re-created
                ops.append(['add_comp', cn])
        for i in self.data:
            ops.append(['rm_data' if i in w.in_dc else 'add_data', i])
        if self.delay == 'hub':
            # the HUB's delay block (messages are queued): what viewers and plugins wrap bulk changes in
            ops.append(['hdelay-'] if w.hdelay else ['hdelay+'])
        elif self.delay:
            ops.append(['delay-'] if w.delay else ['delay+'])
        return ops

    def apply(self, w, op):
        k = op[0]
        try:
            if k == 'add_link':
                w.dc.add_link(w.links[op[1]])
                w.registered.append(op[1])
            elif k == 'rm_link':
                w.dc.remove_link(w.links[op[1]])
                w.registered.remove(op[1])
            elif k == 'rm_comp':
                d = w.D[w.owner[op[1]]]
                d.remove_component(w.cid[op[1]])
                gone = [op[1]] + [x for x in w.derived_of.get(op[1], []) if x in w.present]
                for g in gone:     # internal derived attributes go with their parent
                    w.present.discard(g)
                self._drop(w, lambda atoms: any(set(gone) & (set(src) | {dst}) for src, dst, _ in atoms))
            elif k == 'add_comp':
                d = w.D[w.owner[op[1]]]
                a, b = w.coef[op[1]]
                d.add_component(a * T + b, w.cid[op[1]])
                w.present.add(op[1])
            elif k == 'rm_data':
                w.dc.remove(w.D[op[1]])
                w.in_dc.discard(op[1])
                own = set(n for n in w.present if w.owner[n] == op[1])
                self._drop(w, lambda atoms: any((set(src) | {dst}) & own for src, dst, _ in atoms))
            elif k == 'add_data':
                w.dc.append(w.D[op[1]])
                w.in_dc.add(op[1])
            elif k == 'delay+':
                cm = w.dc.delay_link_manager_update()
                cm.__enter__()
                w.delay.append(cm)
            elif k == 'delay-':
                w.delay.pop().__exit__(None, None, None)
            elif k == 'hdelay+':
                cm = w.dc.hub.delay_callbacks()
                cm.__enter__()
                w.hdelay.append(cm)
            elif k == 'hdelay-':
                w.hdelay.pop().__exit__(None, None, None)
            else:
                raise core.EngineError('unknown op %r' % (op,))
        except core.EngineError:
            raise
        except Exception as e:
            w.violations.append(('unexpected-exception', '%s: %s' % (type(e).__name__, e),
                                 '%s succeeds' % self.opname(op)))

    def _drop(self, w, pred):
        w.registered = [n for n in w.registered if not pred(w.atoms[n])]

    # -- model -------------------------------------------------------------------------
    def model(self, w, i):
        """Reachability for dataset i: name -> (depth, set of candidate value tuples)."""
        atoms = []
        for n in w.registered:
            atoms.extend(w.atoms[n])
        derived = set(dst for _, dst, _ in w.internal)
        for src, dst, bias in w.internal + w.internal_inv:
            if w.owner[dst] in w.in_dc and dst in w.present and all(x in w.present for x in src):
                atoms.append((src, dst, bias))
        known = {}
        for n in w.present:
            if w.owner[n] == i and n not in derived:
                a, b = w.coef[n]
                known[n] = (0, {tuple(a * T + b)})
        depth = 0
        while True:
            depth += 1
            new = {}
            for src, dst, bias in atoms:
                if dst in known or not all(s in known for s in src):
                    continue
                if max(known[s][0] for s in src) != depth - 1:
                    continue
                a, b = w.coef[dst]
                if bias is None:   # inverse of a biased link: exact inverse of the biased map
                    bias = 0.0
                vals = set()
                # every link maps the hidden parameter of its FIRST input exactly (plus bias)
                for v in known[src[0]][1]:
                    a1, b1 = w.coef[src[0]]
                    vals.add(tuple((np.array(v) - b1) / a1 * a + b + bias))
                if dst in new:
                    new[dst] = (depth, new[dst][1] | vals)
                else:
                    new[dst] = (depth, vals)
            if not new:
                break
            known.update(new)
        return known

    def check(self, w):
        from glue.core.exceptions import IncompatibleAttribute
        out = []
        if w.delay or w.hdelay:
            return out
        for i in sorted(w.in_dc):
            d = w.D[i]
            m = self.model(w, i)
            for name, cid in sorted(w.cid.items()):
                if name.startswith('p') and w.owner[name] != i and name not in m:
                    # other datasets' pixel ids: only compared when a link could reach them
                    pass
                try:
                    v = np.asarray(d[cid], dtype=float)
                    readable = True
                except IncompatibleAttribute:
                    readable = False
                except Exception as e:
                    out.append(('read-raises', 'd%d[%s]: %s: %s' % (i, name, type(e).__name__, e),
                                'value or IncompatibleAttribute'))
                    continue
                if readable != (name in m):
                    out.append(('reachability', dict(dataset=i, attribute=name, readable=readable),
                                dict(readable=name in m, links=w.registered)))
                    continue
                if not readable:
                    try:
                        d.get_mask(cid > 1.5)
                        out.append(('mask-on-unreachable', dict(dataset=i, attribute=name), 'IncompatibleAttribute'))
                    except IncompatibleAttribute:
                        pass
                    continue
                cands = m[name][1]
                if not any(np.allclose(v, np.array(c), rtol=1e-9, atol=1e-9) for c in cands):
                    out.append(('value', dict(dataset=i, attribute=name, values=v.tolist()),
                                dict(candidates=sorted(cands), depth=m[name][0], links=w.registered)))
                    continue
                thr = float(np.sort(v)[1]) + 0.25
                try:
                    mask = np.asarray(d.get_mask(cid > thr))
                    if not np.array_equal(mask, v > thr):
                        out.append(('mask', dict(dataset=i, attribute=name, mask=mask.tolist()),
                                    (v > thr).tolist()))
                except Exception as e:
                    out.append(('mask-raises', 'd%d %s > %s: %s: %s' % (i, name, thr, type(e).__name__, e), 'a mask'))
            ext = sorted(w.inv_cid.get(id(c), '?' + c.label) for c in d.externally_derivable_components)
            want = sorted(n for n in m if m[n][0] > 0)
            if ext != want:
                out.append(('externally-derivable-set', dict(dataset=i, got=ext), dict(expected=want)))
        got_links = sorted(n for n, l in w.links.items() if any(l is e for e in w.dc.external_links))
        if got_links != sorted(w.registered) or len(w.dc.external_links) != len(w.registered):
            out.append(('external-links', dict(got=got_links, n=len(w.dc.external_links)), sorted(w.registered)))
        return out

    def canon(self, w):
        ext = {}
        for i, d in enumerate(w.D):
            ext[i] = sorted(w.inv_cid.get(id(c), '?') for c in d.externally_derivable_components)
        return dict(reg=sorted(w.registered), present=sorted(w.present), in_dc=sorted(w.in_dc),
                    delay=len(w.delay), hdelay=len(w.hdelay), ext=ext,
                    real_links=sorted(n for n, l in w.links.items() if any(l is e for e in w.dc.external_links)),
                    pending=w.dc._disable_sync_link_manager)


def tiers(tier):
    if tier == 'quick':
        return [('exact3', Scenario(3, ['a', 'b', 'c', 'd', 'e', 'f', 'g'], comps=('c11', 'n0'), data=(1, 2)), 6),
                ('detour', Scenario(3, ['a', 'x', 'y', 'b'], comps=('c10',), data=(1,), delay=False), 7),
                ('multi', Scenario(3, ['m', 'a', 'b', 'c'], comps=('c01', 'c20'), data=(2,), delay=False), 5),
                ('detour2', Scenario(3, ['a', 'y', 'f', 'w'], comps=(), data=(), delay=False), 5),
                ('multi2', Scenario(3, ['n', 'a', 'b'], comps=('c01', 'c20'), data=(2,), delay=False), 5),
                ('hubdelay', Scenario(3, ['a', 'b'], comps=('c10', 'c11'), data=(), delay='hub'), 6),
                ('derived', Scenario(3, ['k', 'c', 'e'], comps=('c00', 'g0', 'c21'), data=(0, 2), delay=False), 5),
                ('derived-inv', Scenario(3, ['z', 'k', 'e'], comps=('c01', 'h0'), data=(0, 2), delay=False), 5)]
    return [('exact3', Scenario(3, ['a', 'b', 'c', 'd', 'e', 'f', 'g'], comps=('c11', 'n0', 'c20'), data=(0, 1, 2)), 6),
            ('exact4', Scenario(4, ['a', 'b', 'c', 'd', 'e', 'f', 'g', 'h', 'i', 'j'], comps=('c11',), data=(1, 3)), 5),
            ('detour', Scenario(3, ['a', 'x', 'y', 'b', 'e'], comps=('c10', 'c01'), data=(1, 2)), 7),
            ('multi', Scenario(3, ['m', 'a', 'b', 'c', 'f'], comps=('c01', 'c20', 'c11'), data=(1, 2)), 6),
            ('detour2', Scenario(3, ['a', 'y', 'f', 'w', 'x'], comps=('c10',), data=(1,)), 6),
            ('multi2', Scenario(3, ['n', 'a', 'b', 'c'], comps=('c01', 'c20', 'c00'), data=(0, 2)), 6),
            ('hubdelay', Scenario(3, ['a', 'b', 'c'], comps=('c10', 'c11', 'c01'), data=(1,), delay='hub'), 7),
            ('derived', Scenario(3, ['k', 'c', 'e', 'a'], comps=('c00', 'g0', 'c21'), data=(0, 2)), 6),
            ('derived-inv', Scenario(3, ['z', 'k', 'e', 'b'], comps=('c01', 'h0', 'c21'), data=(0, 2)), 6)]


def run(tier):
    t0 = time.time()
    total = core.Result()
    cov = dict(states=0, transitions=0, traces_validated_against_impl=0, runs=[])
    for label, scn, depth in tiers(tier):
        ex = hist.Explorer(scn, depth, PROP, label=label)
        total.merge(ex.run())
        c = ex.coverage()
        for k in ('states', 'transitions', 'traces_validated_against_impl'):
            cov[k] += c[k]
        c['scenario'] = label
        cov['runs'].append(c)
    return core.finish(
        PROP, tier, total, 'model_checking',
        'distinct = canonical (registered links, components, membership, delay depth, REAL derivable sets and '
        'REAL external-link list); after every step every (dataset in collection, attribute) pair is checked for '
        'readability, value, inequality mask, derivable set and external-link list', t0, coverage=cov,
        confirm=confirm,
        assumptions=['links are only added when not registered and removed when registered',
                     'when several shortest chains exist, any of their values is accepted (hidden-parameter '
                     'family makes them all equal; the detour scenario has a unique shortest chain)',
                     'no key joins in this check (C11)'])


def _scn_for(label):
    for tier in ('thorough', 'quick'):
        for l, scn, d in tiers(tier):
            if l == label:
                return scn
    raise core.EngineError('no scenario %r' % label)


def confirm(v):
    scn = _scn_for(v['case'].get('scenario'))
    viol = hist.replay(scn, v['case'], verbose=False)
    return any(x[0] == v['clause'] for x in viol)


def replay(doc):
    scn = _scn_for(doc['case'].get('scenario'))
    viol = hist.replay(scn, doc['case'])
    for x in viol:
        print('  violated:', x)
    return any(x[0] == doc['clause'] for x in viol)
