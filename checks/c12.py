"""C12 - every registered protocol version still loads what it saved; rename table.

Four parts, all on the REAL registries / classes:

 A. registry invariants (complete): saver and loader version sets per type are
    identical and consecutive from 1; a plain dump writes the newest version.
 B. round trips (Mode I): generated collections are written with EVERY
    (Data version, DataCollection version) pair - the old record is produced by
    the registered saver `dispatch.get_version(type, v)` - and loaded back; the
    loaded collection must equal the original in every field that version can
    express (expectation table EXPRESS below, written from the savers' fields).
 C. rename table (complete, all entries): redirections terminate, final
    targets inside this package import, no key captures a concrete class that
    this package still defines and writes.
 D. VersionedDict (Mode H): every __setitem__ history over keys {a,b} x
    versions {0..4,'x'} against a dict-of-lists model.
"""
import time
import inspect
import itertools

import numpy as np

from mc import core, hist

PROP = 'C12'

DATA_VERSIONS = (1, 2, 3, 4, 5)
DC_VERSIONS = (1, 2, 3, 4)

# numeric fill values per seed palette (structure identical; no ties with the thresholds used by the subsets)
PALETTES = [dict(x0=0.0, dx=1.0, y0=0.0, z0=0.0), dict(x0=-2.5, dx=1.5, y0=0.25, z0=10.0),
            dict(x0=100.0, dx=0.5, y0=-1.0, z0=-3.0)]


# =========================================================================== B
def _first_plus_zero(a, b):
    return a + 0 * b


def world_space(tier, pal):
    if tier == 'quick':
        dims = dict(ndim=[2], coords=['none', 'affine'], derived=['none', 'binary', 'function'],
                    join=['none', 'single', 'tuple'], link=['none', 'same', 'mixed'], groups=[0, 2],
                    deco=['plain', 'styled+meta'])
    else:
        dims = dict(ndim=[1, 2], coords=['none', 'affine', 'identity'], derived=['none', 'binary', 'function'],
                    join=['none', 'single', 'tuple'], link=['none', 'same', 'function', 'mixed'], groups=[0, 1, 2],
                    deco=['plain', 'styled', 'meta', 'styled+meta'])
    names = sorted(dims)
    out = []
    for combo in itertools.product(*[dims[n] for n in names]):
        w = dict(zip(names, combo))
        w['pal'] = pal
        out.append(w)
    # legacy worlds: what DataCollection v1 was written for - subsets that live on the datasets, outside any
    # subset group.  Its loader turns them into subset groups (coerce_subset_groups); label, state and the
    # complete style must survive.  Only collection version 1 is exercised with them (later versions declare
    # such subsets unsupported).
    dims['plain_subsets'] = [0, 1, 2, 3]
    dims['plain_style'] = sorted(PLAIN_STYLES)
    legacy = []
    for w in out:
        w['plain_subsets'] = 0
        if w['groups'] == 0 and w['deco'] in ('plain', 'styled+meta'):
            for n in (1, 2, 3):
                for ps in sorted(PLAIN_STYLES):
                    legacy.append(dict(w, plain_subsets=n, plain_style=ps))
    return out + legacy, dims


STYLE_ATTS = ('color', 'alpha', 'markersize', 'marker', 'linewidth', 'linestyle')
PLAIN_STYLES = {
    'default': {},
    'marker': dict(color='#123456', marker='s', markersize=11),
    'line': dict(alpha=0.25, linestyle='dashed', linewidth=4),
}


def full_style(style):
    out = dict((a, getattr(style, a)) for a in STYLE_ATTS)
    cm = getattr(style, 'preferred_cmap', None)
    out['preferred_cmap'] = None if cm is None else getattr(cm, 'name', repr(cm))
    return out


def build_world(w, twin=False):
    """twin=True: the reference for legacy worlds - the plain subsets are created as subset groups instead."""
    from glue.core import Data, DataCollection, ComponentID
    from glue.core.component_link import ComponentLink
    from glue.core.coordinates import AffineCoordinates, IdentityCoordinates
    from glue.core.link_helpers import LinkSame, lengths_to_volume, identity
    p = PALETTES[w['pal']]
    nd = w['ndim']
    shape = (2, 3) if nd == 2 else (6,)
    x = (p['x0'] + p['dx'] * np.arange(6.)).reshape(shape)
    x.flat[4] = np.nan
    c = np.array(list('abcabd')).reshape(shape)
    coords = None
    if w['coords'] == 'affine':
        m = np.array([[2., 0, 1], [0, 3, 2], [0, 0, 1]]) if nd == 2 else np.array([[2., 1], [0, 1]])
        coords = AffineCoordinates(m)
    elif w['coords'] == 'identity':
        coords = IdentityCoordinates(n_dim=nd)
    d = Data(x=x, c=c, label='d', coords=coords)
    if w['derived'] == 'binary':
        d['der'] = d.id['x'] * 2
    elif w['derived'] == 'function':
        link = ComponentLink([d.id['x'], d.id['x'], d.id['x']], ComponentID('der'), using=lengths_to_volume)
        d.add_component_link(link, label='der')
    e = Data(y=p['y0'] + np.arange(4.), k=np.array([1, 2, 1, 2]), k3=np.array([5, 5, 6, 6]), label='e')
    f = Data(z=p['z0'] + np.arange(3.), k2=np.array([1, 2, 3]), k4=np.array([5, 6, 6]), label='f')
    if w['join'] == 'single':
        e.join_on_key(f, 'k', 'k2')
    elif w['join'] == 'tuple':
        e.join_on_key(f, ('k', 'k3'), ('k2', 'k4'))
    dc = DataCollection([d, e, f])
    if w['link'] == 'same':
        dc.add_link(LinkSame(e.id['y'], f.id['z']))
    elif w['link'] == 'function':
        dc.add_link(ComponentLink([e.id['y']], f.id['z'], using=identity))
    elif w['link'] == 'mixed':
        # identity link plus a two-input link whose inputs span two datasets, one of them the output's own
        dc.add_link(LinkSame(e.id['y'], f.id['z']))
        dc.add_link(ComponentLink([e.id['k'], f.id['z']], e.id['k3'], using=_first_plus_zero))
    if w['groups'] >= 1:
        lo, hi = p['x0'] + 0.5 * p['dx'], p['x0'] + 3.5 * p['dx']
        g = dc.new_subset_group('g1', (d.id['x'] > lo) & ~(d.id['x'] > hi))
        g.style.color = '#aa0011'
    if w['groups'] >= 2:
        g = dc.new_subset_group('g2', e.id['y'] > p['y0'] + 1.5)
        g.style.color = '#00bb22'
    if 'styled' in w['deco']:
        d.style.color = '#123456'
        d.style.alpha = 0.25
        e.style.markersize = 11
    if 'meta' in w['deco']:
        d.meta['a'] = 1
        e.meta['note'] = 'text'
    specs = [('p1', d, lambda: d.id['x'] > p['x0'] + 1.5 * p['dx']),
             ('q1', e, lambda: (e.id['y'] > p['y0'] + 0.5) & (e.id['k'] > 1)),
             # a third one that carries the SAME label as the first, on another dataset
             ('p1', f, lambda: f.id['z'] > p['z0'] + 0.5)][:w.get('plain_subsets', 0)]
    for i, (label, data, mk) in enumerate(specs):
        sty = dict(PLAIN_STYLES[w['plain_style']]) if i == 0 else dict(color='#00bb22', marker='^', linestyle='dotted')
        if twin:
            s = dc.new_subset_group(label, mk())
        else:
            s = data.new_subset(label=label)
            s.subset_state = mk()
        for k, v in sty.items():
            setattr(s.style, k, v)
    return dc


def jval(v):
    v = np.asarray(v)
    if v.dtype.kind == 'f':
        return [None if x != x else x for x in v.ravel().tolist()] + [list(v.shape)]
    return v.ravel().tolist() + [list(v.shape)]


def role(d, cid):
    from glue.core.component import CoordinateComponent, DerivedComponent, CategoricalComponent
    comp = d.get_component(cid)
    if isinstance(comp, CoordinateComponent):
        return 'world' if comp.world else 'pixel'
    if isinstance(comp, DerivedComponent):
        return 'derived'
    if isinstance(comp, CategoricalComponent):
        return 'categorical'
    return 'main'


def observe(dc):
    """field -> JSON-able value; a field is a tuple whose first items select the comparison rule."""
    from glue.core.exceptions import IncompatibleAttribute
    o = {}
    o[('dc', 'datasets')] = [d.label for d in dc]
    for d in dc:
        L = d.label
        comps = list(d.components)
        o[('data', L, 'components')] = [cid.label for cid in comps]
        o[('data', L, 'coords')] = type(d.coords).__name__
        for cid in comps:
            o[('data', L, 'owner', cid.label)] = getattr(cid.parent, 'label', None)
        for cid in comps:
            try:
                val = jval(d[cid])
            except Exception as ex:
                val = 'EXC ' + type(ex).__name__
            o[('data', L, 'value', role(d, cid), cid.label)] = val
        o[('data', L, 'subset-labels')] = [s.label for s in d.subsets]
        nseen = {}
        for s in d.subsets:
            # (subsets of one dataset that share a label are told apart by their position)
            nseen[s.label] = nseen.get(s.label, 0) + 1
            slabel = s.label if nseen[s.label] == 1 else '%s#%d' % (s.label, nseen[s.label])
            try:
                m = jval(s.to_mask())
            except IncompatibleAttribute:
                m = 'IncompatibleAttribute'
            except Exception as ex:
                m = 'EXC ' + type(ex).__name__
            o[('data', L, 'mask', slabel)] = m
            o[('data', L, 'subset-style', slabel)] = full_style(s.style)
        o[('data', L, 'style')] = dict((a, getattr(d.style, a)) for a in STYLE_ATTS)
        joins = []
        for other, (c1, c2) in d._key_joins.items():
            t1 = c1 if isinstance(c1, tuple) else (c1,)
            t2 = c2 if isinstance(c2, tuple) else (c2,)
            joins.append(dict(other=other.label, own=[x.label for x in t1], theirs=[x.label for x in t2],
                              tuples=isinstance(c1, tuple) and isinstance(c2, tuple),
                              attached=all(any(x is y for y in d.components) for x in t1) and
                              all(any(x is y for y in other.components) for x in t2)))
        o[('data', L, 'joins')] = sorted(joins, key=lambda j: j['other'])
        o[('data', L, 'uuid')] = d.uuid
        o[('data', L, 'meta')] = dict((str(k), v) for k, v in d.meta.items())
        for other in dc:
            if other is d:
                continue
            for cid in other.main_components:
                try:
                    val = jval(d[cid])
                except IncompatibleAttribute:
                    val = 'IncompatibleAttribute'
                except Exception as ex:
                    val = 'EXC ' + type(ex).__name__
                o[('data', L, 'cross', '%s.%s' % (other.label, cid.label))] = val
    o[('dc', 'external-link-count')] = len(dc.external_links)
    groups = []
    for g in dc.subset_groups:
        where = []
        for s in g.subsets:
            where.append([s.data.label if s.data is not None else None,
                          [i for i, t in enumerate(s.data.subsets) if t is s] if s.data is not None else []])
        groups.append(dict(label=g.label, style=full_style(g.style), subsets=where))
    o[('dc', 'groups')] = groups
    o[('dc', 'sg_count')] = dc._sg_count
    return o


def expressible(field, w, dv, cv):
    """The per-version expectation table: may `field` be demanded of (Data v dv, DataCollection v cv)?

    Data v1: label, component order/values, coords, subsets (label, state, style)   [_save_data]
         v2: + style                                                              [_save_data_2]
         v3: + key joins on single ids                                            [_save_data_3]
         v4: + tuple key joins, uuid                                              [_save_data_4]
         v5: + component ownership, meta                                          [_save_data_5]
    DataCollection v1: datasets, links, component ids                             [_save_data_collection]
         v2: + subset groups   v3: + subset group counter   v4: links = external links only
    """
    kind = field[2] if field[0] == 'data' else field[1]
    if kind == 'style':
        return dv >= 2
    if kind == 'joins':
        return dv >= 4 or (dv == 3 and w['join'] != 'tuple')
    if kind == 'uuid':
        return dv >= 4
    if kind in ('meta', 'owner'):
        return dv >= 5
    if kind == 'groups':
        return cv >= 2 or bool(w.get('plain_subsets'))      # legacy worlds: the groups the v1 loader creates
    if kind == 'sg_count':
        return cv >= 3
    if kind == 'mask' and field[1] == 'f' and field[3] == 'g2' and w['link'] == 'none':
        # e.y > t evaluated on f: only reachable through the key join
        return (w['join'] == 'single' and dv >= 3) or (w['join'] == 'tuple' and dv >= 4) or w['join'] == 'none'
    if kind == 'mask' and field[1] == 'e' and field[3] == 'p1#2' and w['link'] == 'none':
        # f.z > t evaluated on e: only reachable through the key join
        return (w['join'] == 'single' and dv >= 3) or (w['join'] == 'tuple' and dv >= 4) or w['join'] == 'none'
    if kind == 'mask' and field[1] == 'f' and field[3] == 'q1':
        # uses e.k, which no link carries over to f: only reachable through the key join
        return (w['join'] == 'single' and dv >= 3) or (w['join'] == 'tuple' and dv >= 4) or w['join'] == 'none'
    if kind == 'mask' and field[1] == 'e' and field[3] == 'g2':
        return True
    return True


def describe(field, w, want, got, obs):
    """class signature of one mismatching field (world-independent)."""
    if field[0] == 'dc':
        return {'datasets': 'datasets', 'external-link-count': 'external links|count',
                'groups': 'subset groups', 'sg_count': 'subset group counter'}[field[1]]
    kind = field[2]
    if kind == 'components':
        missing = [x for x in want if x not in (got or [])]
        extra = [x for x in (got or []) if x not in want]
        if missing == ['der'] and not extra:
            return 'derived=%s|component dropped' % w['_derived_class']
        if not missing and not extra:
            return 'components|order'
        return 'components|labels'
    if kind == 'value':
        return 'values|%s' % field[3] + ('|coords=%s' % w['coords'] if field[3] == 'world' else '') + \
            ('|derived=%s' % w['_derived_class'] if field[3] == 'derived' else '')
    if kind == 'cross':
        return 'cross-dataset values|link=%s' % w['link']
    if kind == 'mask':
        via = ''
        if (field[1] == 'f' and (field[3] == 'g2' and w['link'] == 'none' or field[3] == 'q1') or
                field[1] == 'e' and field[3] == 'p1#2' and w['link'] == 'none') and w['join'] != 'none':
            via = '|through key-join=%s' % w['join']
        return 'subset mask%s|%s' % (via, got if isinstance(got, str) else 'wrong values')
    if kind == 'joins':
        det = 'lost'
        if got:
            det = 'ids detached from the datasets' if not all(j['attached'] for j in got) else \
                ('ids not tuples' if not all(j['tuples'] for j in got) else 'different')
        return 'key-join=%s|%s' % (w['join'], det)
    return {'coords': 'coords type', 'owner': 'component ownership', 'subset-labels': 'subset labels',
            'subset-style': 'subset style', 'style': 'style', 'uuid': 'uuid', 'meta': 'meta'}[kind]


def versioned_dump(dc, dv, cv):
    from glue.core import Data, DataCollection
    from glue.core.state import GlueSerializer
    gs = GlueSerializer(dc, include_data=True)
    orig = gs._dispatch

    def disp(obj):
        if type(obj) is Data:
            return GlueSerializer.dispatch.get_version(Data, dv), dv
        if type(obj) is DataCollection:
            return GlueSerializer.dispatch.get_version(DataCollection, cv), cv
        return orig(obj)
    gs._dispatch = disp
    return gs.dumps()


def round_trip(w, dv, cv):
    """-> (mismatches {descriptor: (field, observed, expected)}, evaluated field count)"""
    import json
    from glue.core.state import GlueUnSerializer
    core.reset_globals()
    dc = build_world(w)
    want = observe(dc)
    if w.get('plain_subsets'):
        # the subsets on the datasets come back as subset groups: everything about subsets is taken from the twin
        # world in which they were created as groups in the first place (uuids etc. from the world itself)
        core.reset_globals()
        ref = observe(build_world(w, twin=True))
        for field in list(want):
            if field[0] == 'data' and field[2] in ('subset-labels', 'mask', 'subset-style'):
                del want[field]
        for field, v in ref.items():
            if field == ('dc', 'groups') or field[0] == 'data' and field[2] in ('subset-labels', 'mask', 'subset-style'):
                want[field] = v
    text = versioned_dump(dc, dv, cv)
    doc = json.loads(text)
    bad = {}
    for name, rec in doc.items():
        if rec['_type'] == 'glue.core.data.Data' and rec.get('_protocol', 1) != dv or \
                rec['_type'] == 'glue.core.data_collection.DataCollection' and rec.get('_protocol', 1) != cv:
            raise core.EngineError('harness did not produce the requested versions')
    try:
        dc2 = GlueUnSerializer.loads(text).object('__main__')
        got = observe(dc2)
    except Exception as ex:
        return {'load raises %s' % type(ex).__name__: (['load'], repr(ex), 'loads')}, 0
    # the same record loaded a second time in the same process (the first result still alive) gives the same thing
    try:
        again = observe(GlueUnSerializer.loads(text).object('__main__'))
    except Exception as ex:
        return {'second load raises %s' % type(ex).__name__: (['load'], repr(ex), 'loads')}, 0
    for field in sorted(got, key=repr):
        if field[0] == 'data' and field[2] == 'uuid':
            continue
        if again.get(field) != got[field]:
            bad['second load in the same process differs|%s' % (field[2] if field[0] == 'data' else field[1])] = \
                (list(field), again.get(field), got[field])
            break
    n = 0
    dropped = set()
    order = {'components': 0, 'joins': 1}
    for field in sorted(want, key=lambda f: (order.get(f[2] if f[0] == 'data' else f[1], 2), repr(f))):
        if not expressible(field, w, dv, cv):
            continue
        n += 1
        g = got.get(field)
        if field[0] == 'data' and field[2] in ('value', 'owner') and (field[1], field[-1]) in dropped:
            continue
        if g != want[field]:
            if field[0] == 'data' and field[2] == 'components':
                dropped |= set((field[1], x) for x in want[field] if x not in (g or []))
            bad.setdefault(describe(field, w, want[field], g, got), (list(field), g, want[field]))
    # consequences of a defect that is already reported are not reported a second time
    if any(k.endswith('|component dropped') for k in bad):
        bad.pop('external links|count', None)     # the dropped link is registered as an external link instead
    if any(k.startswith('key-join=') for k in bad):
        for k in [k for k in bad if k.startswith('subset mask|through key-join=')]:
            bad.pop(k)
    return bad, n


def annotate(w):
    w = dict(w)
    w['_derived_class'] = {'none': 'none', 'binary': 'BinaryComponentLink', 'function': 'ComponentLink'}[w['derived']]
    return w


def world_case(res, w0):
    """All 20 version pairs of one world.  A mismatch is attributed to `Data v<n>` if it shows with every
    collection version (that can express the field) for that Data version, to `DataCollection v<m>` if it shows
    with every Data version for that collection version, otherwise to the pair."""
    w = annotate(w0)
    M = {}
    dc_versions = [1] if w.get('plain_subsets') else DC_VERSIONS
    for dv in DATA_VERSIONS:
        for cv in dc_versions:
            M[dv, cv], n = round_trip(w, dv, cv)
            res.case(sig=('rt', core.jdump(w0, sort_keys=True), dv, cv) if n else None,
                     sample=dict(world=w0, data_version=dv, collection_version=cv, fields_compared=n))
            res.count('fields_compared', n)
    seen = set()
    for (dv, cv), bad in sorted(M.items()):
        for desc, (field, got, want) in sorted(bad.items()):
            fld = tuple(field)
            can = (lambda a, b: True) if fld == ('load',) else (lambda a, b: expressible(fld, w, a, b))
            row = len(dc_versions) > 1 and all(desc in M[dv, c2] for c2 in dc_versions if can(dv, c2))
            col = all(desc in M[d2, cv] for d2 in DATA_VERSIONS if can(d2, cv))
            if row:
                who = 'Data v%d' % dv
            elif col:
                who = 'DataCollection v%d' % cv
            else:
                who = 'Data v%d+DataCollection v%d' % (dv, cv)
            key = '%s|%s' % (who, desc)
            if key in seen:
                continue
            seen.add(key)
            res.violation('round-trip', key, dict(kind='world', world=w0, data_version=dv, collection_version=cv),
                          {'field': field, 'loaded': got}, {'field': field, 'original': want})


def newest_case(res, w0):
    """a plain dump (no version forcing) must write the newest registered version of every record."""
    import json
    from glue.core.state import GlueSerializer
    core.reset_globals()
    dc = build_world(annotate(w0))
    gs = GlueSerializer(dc, include_data=True)
    doc = json.loads(gs.dumps())
    n = 0
    for name, obj in gs._objs.items():
        if hasattr(obj, '__gluestate__'):
            continue
        for typ in type(obj).mro():
            if typ in GlueSerializer.dispatch:
                newest = max(GlueSerializer.dispatch._data[typ])
                wrote = doc[name].get('_protocol', 1)
                n += 1
                if wrote != newest:
                    res.violation('save-uses-newest', 'dump|%s|writes v%s, newest v%s' % (typ.__name__, wrote, newest),
                                  dict(kind='newest', world=w0), wrote, newest)
                break
    res.case(sig=('newest', core.jdump(w0, sort_keys=True)), sample=dict(world=w0, records_checked=n))


# =========================================================================== A
def registry_case(res):
    from glue.core.state import GlueSerializer, GlueUnSerializer
    import glue.core.state_objects  # noqa  (the only other module of the package that registers a saver/loader)
    S, L = GlueSerializer.dispatch._data, GlueUnSerializer.dispatch._data
    tn = lambda t: '%s.%s' % (t.__module__, t.__name__)
    for which, reg in (('saver', S), ('loader', L)):
        for typ, vs in reg.items():
            vs = sorted(vs, key=repr)
            res.case(sig=('reg', which, tn(typ)), sample=dict(registry=which, type=tn(typ), versions=vs))
            if vs != list(range(1, len(vs) + 1)):
                res.violation('versions-consecutive', 'registry|%s|%s|versions %s' % (which, tn(typ), vs),
                              dict(kind='registry'), vs, list(range(1, len(vs) + 1)))
    for typ in S:
        if typ in L and sorted(S[typ]) != sorted(L[typ]):
            res.violation('saver-loader-versions', 'registry|%s|saver %s loader %s'
                          % (tn(typ), sorted(S[typ]), sorted(L[typ])), dict(kind='registry'),
                          dict(saver=sorted(S[typ]), loader=sorted(L[typ])), 'identical')
        if typ in GlueSerializer.dispatch:
            fn, v = GlueSerializer.dispatch[typ]
            if v != max(S[typ]) or fn is not S[typ][v]:
                res.violation('save-uses-newest', 'registry|%s|dispatch returns v%s' % (tn(typ), v),
                              dict(kind='registry'), v, max(S[typ]))
    res.counts['registry_saver_types'] = len(S)
    res.counts['registry_loader_types'] = len(L)
    res.counts['registry_multi_version_types'] = sum(1 for t in S if len(S[t]) > 1)
    only = sorted([tn(t) for t in S if t not in L] + [tn(t) for t in L if t not in S])
    if only:
        res.notes.append('types with a saver or a loader only (outside the statement): %s' % only)


# =========================================================================== C
def is_written_class(obj, name):
    """obj (found by plain lookup_class(name)) is a concrete class defined in this package whose instances the
    serializer writes under exactly this name."""
    from glue.core.state import GlueSerializer
    if not inspect.isclass(obj) or inspect.isabstract(obj):
        return False
    if not (obj.__module__ or '').startswith('glue.'):
        return False
    if '%s.%s' % (obj.__module__, obj.__name__) != name:
        return False          # only an alias: instances are written under another name
    if hasattr(obj, '__gluestate__'):
        return True
    return any(t in GlueSerializer.dispatch for t in obj.mro())


def rename_entry(res, key):
    from glue.core.state import PATH_PATCHES
    from glue.utils import lookup_class
    chain = [key]
    name = key
    while name in PATH_PATCHES and len(chain) <= len(PATH_PATCHES) + 1:
        name = PATH_PATCHES[name]
        chain.append(name)
    case = dict(kind='rename', key=key)
    nontrivial = len(chain) > 2 or name.startswith('glue.')
    res.case(sig=('rename', key) if nontrivial else None, sample=dict(key=key, chain=chain))
    if name in PATH_PATCHES:
        res.violation('rename-terminates', 'rename-table|cycle|%s' % key, case, chain[:6], 'fixed point')
        return
    if name.startswith('glue.'):
        try:
            target = lookup_class(name)
        except Exception as ex:
            target = None
            res.violation('rename-target-imports', 'rename-table|target not importable|%s' % name, case,
                          repr(ex), 'importable')
        # ... and the REAL resolver (what the un-serializer calls) must arrive at that very object from the old
        # name, however many hops the table needs
        if target is not None:
            from glue.core.state import lookup_class_with_patches
            try:
                got = lookup_class_with_patches(key)
            except Exception as ex:
                got = repr(ex)
            if got is not target:
                res.violation('rename-resolves', 'rename-table|resolver|%d-hop chain' % (len(chain) - 1), case,
                              repr(got), '%s (via %s)' % (name, ' -> '.join(chain)))
    try:
        here = lookup_class(key)
    except Exception:
        here = None
    if here is not None and is_written_class(here, key):
        res.violation('rename-captures-live-class', 'rename-table|captures|%s' % key, case,
                      '%s is defined here and written under this name, but is redirected to %s' % (key, name),
                      'not in the rename table')


# =========================================================================== D
KEYS = ('a', 'b')
VERSIONS = (0, 1, 2, 3, 4, 'x')


class VDWorld(object):
    def __init__(self):
        from glue.core.state import VersionedDict
        self.real = VersionedDict()
        self.model = {}           # key -> list of values; version = index + 1
        self.violations = []
        self.accepted = 0
        self.outcome = None


class VDScenario(object):

    def __init__(self, keys=KEYS):
        self.keys = tuple(keys)

    def new_world(self):
        return VDWorld()

    def enabled(self, w):
        return [['set', k, v] for k in self.keys for v in VERSIONS]

    def opname(self, op):
        return ':'.join(str(x) for x in op)

    def apply(self, w, op):
        _, k, v = op
        lst = w.model.get(k, [])
        # the value written differs from any value an earlier accepted assignment stored under (k, v), and does
        # not depend on the interleaving of the keys (so equal contents <=> equal state)
        token = [k, v, len(lst)]
        if not isinstance(v, int):
            want = 'ValueError'
        elif v == len(lst) + 1:
            want = 'ok'
        elif 1 <= v <= len(lst):
            want = 'KeyError'        # overwrite
        elif v > len(lst) + 1:
            want = 'KeyError'        # skips a version
        else:
            want = 'rejected'        # versions start at 1: any exception will do
        try:
            w.real[(k, v)] = token
            got = 'ok'
        except KeyError:
            got = 'KeyError'
        except ValueError:
            got = 'ValueError'
        except Exception as ex:
            got = type(ex).__name__
        if want == 'ok':
            w.model.setdefault(k, []).append(token)
            w.accepted += 1
        w.outcome = got
        ok = (got == want) or (want == 'rejected' and got != 'ok')
        if not ok:
            w.violations.append(('set-outcome', '%s -> %s' % (self.opname(op), got), want))

    def check(self, w):
        out = []
        if w.violations:
            return out           # the step itself is already reported; the state behind it is its consequence
        for k in self.keys:
            lst = w.model.get(k, [])
            stored = dict(w.real._data.get(k, {}))
            if sorted(stored, key=repr) != list(range(1, len(lst) + 1)) or \
                    any(stored[i + 1] != t for i, t in enumerate(lst) if i + 1 in stored):
                out.append(('stored-versions', {k: sorted(stored.items(), key=repr)},
                            {k: [[i + 1, t] for i, t in enumerate(lst)]}))
                continue
            for v in (1, 2, 3, 4, 5):
                try:
                    g = w.real.get_version(k, v)
                except KeyError:
                    g = 'KeyError'
                e = lst[v - 1] if v <= len(lst) else 'KeyError'
                if g != e:
                    out.append(('get_version', [k, v, g], e))
            if lst:
                try:
                    g = list(w.real[k])
                except Exception as ex:
                    g = type(ex).__name__
                if g != [lst[-1], len(lst)] or w.real.get_version(k) != lst[-1]:
                    out.append(('newest', [k, g], [lst[-1], len(lst)]))
                if k not in w.real:
                    out.append(('contains', [k, False], True))
        return out

    def canon(self, w):
        return dict(real=dict((k, sorted(v.items(), key=repr)) for k, v in w.real._data.items() if v),
                    model=w.model)


def vd_runs(tier):
    # (label, keys, depth, dedup); the de-duplicated runs close their frontier (at most 4 versions per key)
    runs = [('vd-all-sequences', 'ab', 5, False), ('vd-states', 'ab', 10, True)]
    if tier == 'thorough':
        runs.append(('vd-states-3keys', 'abc', 14, True))
        runs.append(('vd-all-sequences-3keys', 'abc', 4, False))
    return runs


# ======================================================================== main
def work(shard):
    tier, cases = shard
    core.bind()
    res = core.Result()
    for c in cases:
        if c[0] == 'world':
            world_case(res, c[1])
        elif c[0] == 'newest':
            newest_case(res, c[1])
        elif c[0] == 'registry':
            registry_case(res)
        elif c[0] == 'rename':
            rename_entry(res, c[1])
    return res


def all_cases(tier):
    core.bind()
    from glue.core.state import PATH_PATCHES
    pal = core.seed() % len(PALETTES)
    worlds, dims = world_space(tier, pal)
    cases = [('world', w) for w in worlds] + [('newest', w) for w in worlds[::7]]
    cases += [('registry',)] + [('rename', k) for k in sorted(PATH_PATCHES)]
    return cases, dims, len(worlds), len(PATH_PATCHES)


RULE = ('round trips: complete product of world features x all 20 (Data version, DataCollection version) pairs '
        '(legacy worlds with subsets outside groups: x 5 Data versions, DataCollection v1, against a twin world), '
        'each loaded by the real GlueUnSerializer and compared field by field with the original within what the '
        'version expresses; non-trivial = at least one field compared.  registries and rename table: every entry.  '
        'VersionedDict: every __setitem__ history (keys a,b x versions 0..4,"x") to the depth bound without '
        'de-duplication (depth 5), and to closure of the frontier with de-duplication on (real contents, model)')


def run(tier):
    t0 = time.time()
    cases, dims, nworlds, nren = all_cases(tier)
    nlegacy = sum(1 for c in cases if c[0] == 'world' and c[1].get('plain_subsets'))
    cases = core.rotate(cases)
    total = core.run_shards(work, [(tier, s) for s in core.split(cases, core.jobs() * 4)])
    vd = []
    for label, keys, depth, dedup in vd_runs(tier):
        ex = hist.Explorer(VDScenario(keys), depth, PROP, dedup=dedup, label=label)
        total.merge(ex.run())
        c = ex.coverage()
        c['scenario'] = label
        c.pop('levels', None)
        vd.append(c)
    cov = dict(product_dimensions=dict(world_features=dims, worlds=nworlds, data_versions=list(DATA_VERSIONS),
                                       collection_versions=list(DC_VERSIONS), round_trips=nworlds * 20 - nlegacy * 15, legacy_worlds_collection_v1_only=nlegacy,
                                       rename_entries=nren, versioned_dict_alphabet=[list(KEYS), list(VERSIONS)]),
               versioned_dict=vd)
    return core.finish(
        PROP, tier, total, 'exploration', RULE, t0, coverage=cov, confirm=confirm,
        assumptions=[
            'old-version records are what the REGISTERED saver of that version writes for today\'s objects '
            '(dispatch.get_version(type, v)); hand-written historic files are not used',
            'only Data (v1-5) and DataCollection (v1-4) have more than one version; every other registered type is '
            'exercised at its only version inside the worlds (components, ids, links, subsets, states, styles, '
            'coordinates); RegionData, WCS, units, ROIs, colormaps, LoadLog are left to C02/C19',
            'equivalence is field-wise: labels, component order/values, coordinates (world values), subsets (label, '
            'style, mask), style, key joins (ids attached to the datasets, masks through the join), uuid, meta, '
            'ownership, cross-dataset values through links, external link count, groups, group counter - each '
            'demanded only from the version whose saver writes it (table in `expressible`)',
            'registries are inspected after importing glue.core.state and glue.core.state_objects (the only modules '
            'of this package that register savers/loaders); plugins registering more are not covered',
            'rename table: targets outside glue.* (glue_qt, types) are not required to import; "defines and '
            'writes" = concrete class in a glue.* module, serialisable, whose module.name equals the key',
            'VersionedDict: what a REJECTED assignment leaves behind for `in`/len() is not compared (the '
            'statement speaks about stored versions only)'])


def confirm(v):
    core.bind()
    c = v['case']
    res = core.Result()
    if c.get('kind') == 'history':
        scn = VDScenario('abc')
        viol = hist.replay(scn, c, verbose=False)
        return any(x[0] == v['clause'] for x in viol)
    if c['kind'] == 'world':
        world_case(res, c['world'])
    elif c['kind'] == 'newest':
        newest_case(res, c['world'])
    elif c['kind'] == 'registry':
        registry_case(res)
    elif c['kind'] == 'rename':
        rename_entry(res, c['key'])
    return any(x['key'] == v['key'] for x in res.violations)


def replay(doc):
    core.bind()
    c = doc['case']
    if c.get('kind') == 'history':
        viol = hist.replay(VDScenario('abc'), c)
        for x in viol:
            print('  violated:', x)
        return any(x[0] == doc['clause'] for x in viol)
    res = core.Result()
    if c['kind'] == 'world':
        print('  world %s, Data v%d, DataCollection v%d' % (core.jdump(c['world']), c['data_version'],
                                                           c['collection_version']))
        world_case(res, c['world'])
    elif c['kind'] == 'newest':
        newest_case(res, c['world'])
    elif c['kind'] == 'registry':
        registry_case(res)
    elif c['kind'] == 'rename':
        rename_entry(res, c['key'])
    for x in res.violations:
        if x['key'] == doc['key']:
            print('  violated %s key=%s\n    observed %s\n    expected %s'
                  % (x['clause'], x['key'], core._clip(x['observed']), core._clip(x['expected'])))
    return any(x['key'] == doc['key'] for x in res.violations)
