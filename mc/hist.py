"""Mode H/S: explicit-state breadth-first search over operation histories of
the REAL implementation, in lock-step with a reference model.

A state is the history that reaches it: live glue objects do not copy, so every
successor is produced by building fresh objects and replaying history + op.

Scenario interface (duck-typed):
    new_world()            -> world (fresh real objects + fresh model)
    enabled(world)         -> list of JSON-able ops (lists/tuples of str/int)
    apply(world, op)       -> None (drives real code and model; may record
                              violations itself in world.violations)
    check(world)           -> list of (clause, observed, expected[, detail])
    canon(world)           -> JSON-able abstraction of the REAL state (+model)
                              or None to disable de-duplication
    opname(op)             -> short string (optional)
"""
import time

from . import core


class Explorer(object):

    def __init__(self, scn, depth, prop, dedup=True, chunk=None, selfcheck=2,
                 max_states=None, label='', lookahead=300):
        self.lookahead = lookahead
        self.lookahead_transitions = 0
        self.scn = scn
        self.depth = depth
        self.prop = prop
        self.dedup = dedup
        self.selfcheck = selfcheck
        self.max_states = max_states
        self.label = label
        self.states = 0
        self.transitions = 0
        self.pruned = 0
        self.max_depth = 0
        self.frontier_closed = False
        self.cap_hit = False
        self.levels = []
        self.outcomes = set()

    # -- one execution ------------------------------------------------------
    def build(self, hist, check_last=True):
        core.reset_globals()
        scn = self.scn
        w = scn.new_world()
        viol = []
        for i, op in enumerate(hist):
            scn.apply(w, op)
        if check_last:
            viol = list(getattr(w, 'violations', []) or [])
            viol += list(scn.check(w))
        return w, viol

    def run(self, root=None):
        """root=None: explore from the empty history.  root=[ops]: explore only the subtree below that
        history (the root itself is assumed to be checked by another shard; a violating root has no subtree)."""
        global _EXPLORER
        _EXPLORER = self
        res = core.Result()
        t0 = time.time()
        root = [list(op) for op in (root or [])]
        w, viol = self.build(root)
        c0 = core.short_hash(self.scn.canon(w)) if self.dedup else None
        seen = {c0: root} if self.dedup else {}
        if not root:
            self.states = 1
            res.case(sig=c0 or 'root', sample=[])
            for v in viol:
                self._record(res, [], v)
        frontier = [root] if not viol else []
        for d in range(len(root) + 1, self.depth + 1):
            if not frontier:
                self.frontier_closed = True
                break
            nj = core.jobs()
            size = max(1, min(200, len(frontier) // (nj * 4) + 1))
            chunks = [frontier[i:i + size] for i in range(0, len(frontier), size)]
            out = []
            for part in core.pmap(_expand, chunks):
                out.extend(part)
            out.sort(key=lambda r: core.jdump(r[0]))
            nxt = []
            dups = []
            lvl_states = 0
            for hist, ch, viol, obs in out:
                self.transitions += 1
                self.outcomes.add(obs)
                res.evaluations += 1
                if len(res.samples) < res.MAX_SAMPLES and len(hist) >= min(3, self.depth):
                    res.samples.append(hist)
                if viol:
                    self.pruned += 1
                    for v in viol:
                        self._record(res, hist, v)
                    continue
                if self.dedup:
                    if ch in seen:
                        dups.append(hist)
                        continue
                    seen[ch] = hist
                    res.sigs.add(ch)
                else:
                    res.sigs.add(core.short_hash(hist))
                self.states += 1
                lvl_states += 1
                nxt.append(hist)
            self.max_depth = d
            # abstraction guard: histories that were merged into an already seen canonical state are not
            # extended - but real objects can carry state the canonical form does not show.  The first
            # `lookahead` merged histories of each level (in a fixed order) are therefore extended by ONE more
            # operation and their successors checked (never added to the frontier).
            if self.lookahead and dups and d < self.depth:
                pick = dups[:self.lookahead]
                size = max(1, len(pick) // (core.jobs() * 2) + 1)
                for part in core.pmap(_expand, [pick[i:i + size] for i in range(0, len(pick), size)]):
                    for hist, ch, viol, obs in part:
                        self.lookahead_transitions += 1
                        for v in viol:
                            self._record(res, hist, v)
            self.levels.append(dict(depth=d, transitions=len(out), new_states=lvl_states,
                                    merged=len(dups), wall_s=round(time.time() - t0, 1)))
            frontier = nxt
            if self.max_states and self.states > self.max_states:
                self.cap_hit = True
                break
        else:
            self.frontier_closed = not frontier
        return res

    def _record(self, res, hist, v):
        clause, observed, expected = v[0], v[1], v[2]
        detail = v[3] if len(v) > 3 else None
        if clause == 'ENGINE':
            raise core.EngineError('%s at %s' % (observed, hist))
        mh = v[4] if len(v) > 4 and v[4] is not None else self.minimise(hist, clause)
        key = '%s|%s' % (clause, self.hist_key(mh))
        res.violation(clause, key, dict(kind='history', scenario=self.label, history=mh,
                                        found_at=hist), observed, expected, detail)

    def hist_key(self, hist):
        name = getattr(self.scn, 'opname', None) or (lambda op: ':'.join(str(x) for x in op))
        return '>'.join(name(op) for op in hist)

    # -- delta debugging ------------------------------------------------------
    def violates(self, hist, clause):
        core.reset_globals()
        scn = self.scn
        w = scn.new_world()
        try:
            for op in hist:
                if list(op) not in [list(o) for o in scn.enabled(w)]:
                    return False
                scn.apply(w, op)
            viol = list(getattr(w, 'violations', []) or []) + list(scn.check(w))
        except core.EngineError:
            return False
        return any(v[0] == clause for v in viol)

    def minimise(self, hist, clause):
        hist = [list(op) for op in hist]
        changed = True
        while changed and len(hist) > 1:
            changed = False
            for i in range(len(hist) - 1, -1, -1):
                cand = hist[:i] + hist[i + 1:]
                if self.violates(cand, clause):
                    hist = cand
                    changed = True
                    break
            if changed or len(hist) < 3:
                continue
            # pairs (e.g. remove X ... re-append X must go together)
            n = len(hist)
            for i in range(n - 1):
                for j in range(i + 1, n):
                    cand = [op for k, op in enumerate(hist) if k not in (i, j)]
                    if self.violates(cand, clause):
                        hist = cand
                        changed = True
                        break
                if changed:
                    break
        return hist

    def coverage(self):
        return dict(states=self.states, transitions=self.transitions,
                    traces_validated_against_impl=self.transitions + 1,
                    max_depth=self.max_depth, depth_bound=self.depth,
                    frontier_closed=self.frontier_closed, cap_hit=self.cap_hit,
                    pruned_at_violating_states=self.pruned,
                    distinct_outcomes=len(self.outcomes), levels=self.levels,
                    lookahead_per_level=self.lookahead, lookahead_transitions=self.lookahead_transitions,
                    dedup=self.dedup)


_EXPLORER = None


def _expand(hists):
    ex = _EXPLORER
    scn = ex.scn
    out = []
    checked = 0
    for hist in hists:
        w, _ = ex.build(hist, check_last=False)
        ops = [list(op) for op in scn.enabled(w)]
        for op in ops:
            h2 = hist + [op]
            w2, viol = ex.build(h2)
            c = scn.canon(w2)
            ch = core.short_hash(c) if c is not None else core.short_hash(h2)
            obs = core.short_hash([c, [v[0] for v in viol]]) if c is not None else \
                core.short_hash([getattr(w2, 'outcome', None), [v[0] for v in viol]])
            if checked < ex.selfcheck:
                checked += 1
                w3, viol3 = ex.build(h2)
                c3 = scn.canon(w3)
                if core.jdump(c3, sort_keys=True) != core.jdump(c, sort_keys=True) or \
                        [v[0] for v in viol3] != [v[0] for v in viol]:
                    raise core.EngineError('ENGINE-NONDETERMINISM: history %r observed differently '
                                           'on two executions' % (h2,))
            viol = [tuple(v) for v in viol]
            if viol:
                # minimise in the worker (parallel); carried as 5th field
                viol = [(v[0], v[1], v[2], v[3] if len(v) > 3 else None,
                         ex.minimise(h2, v[0]) if v[0] != 'ENGINE' else None) for v in viol]
            out.append((h2, ch, viol, obs))
    return out


def replay(scn, case, verbose=True):
    """Re-execute a stored history without the explorer; returns violations."""
    core.reset_globals()
    w = scn.new_world()
    for op in case['history']:
        scn.apply(w, op)
        if verbose:
            print('  op', op)
    viol = list(getattr(w, 'violations', []) or []) + list(scn.check(w))
    return viol
