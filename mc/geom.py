"""Geometry oracles for C08 / C09, written from the definitions with plain numpy.

Every shape offers
  inside(x, y)        -> bool array, the open point set of the region
  bdist(x, y)         -> float array, a LOWER bound of the Euclidean distance from each point to the
                         region boundary (exact for box / disc / ring / polygon / strip, Lipschitz bound
                         for the oval).  `bdist > band` is the "farther than a small tolerance from the
                         boundary" filter of the property statements, computed without the code under test.
  poly_exclude(x, y, band) -> bool array, points that must not be compared when the region has been
                         replaced by its to_polygon() discretisation (covers the sliver between a curve
                         and its inscribed 99-gon)
  moved(dx, dy), rotated(dtheta, cx, cy) -> new oracle shapes
  centre()            -> geometric centre (None where the notion is not analytic, e.g. polygons)
  bbox()              -> (x0, x1, y0, y1)
  straddle(deltas)    -> points at +-delta across every edge / arc
No function here imports glue.
"""
import math

import numpy as np

N_POLY = 100                       # glue discretises curves with linspace(0, 2pi, 100) -> 99 chords
CHORD_COS = math.cos(math.pi / (N_POLY - 1))


def rot(dx, dy, t):
    c, s = math.cos(t), math.sin(t)
    return c * dx - s * dy, s * dx + c * dy


def _f(a):
    return np.asarray(a, dtype=float)


def seg_dist(px, py, x1, y1, x2, y2):
    """Distance from points to the closed segment (x1,y1)-(x2,y2)."""
    ex, ey = x2 - x1, y2 - y1
    L2 = ex * ex + ey * ey
    if L2 == 0.0:
        return np.hypot(px - x1, py - y1)
    t = ((px - x1) * ex + (py - y1) * ey) / L2
    t = np.clip(t, 0.0, 1.0)
    return np.hypot(px - (x1 + t * ex), py - (y1 + t * ey))


class Shape(object):
    curved = False

    def poly_exclude(self, x, y, band):
        return ~(self.bdist(x, y) > band)

    def centre(self):
        return None

    def scale(self):
        x0, x1, y0, y1 = self.bbox()
        return max(1.0, abs(x0), abs(x1), abs(y0), abs(y1))

    def size(self):
        x0, x1, y0, y1 = self.bbox()
        return max(x1 - x0, y1 - y0)


class Box(Shape):
    def __init__(self, cx, cy, w, h, theta=0.0):
        self.cx, self.cy, self.w, self.h, self.theta = float(cx), float(cy), float(w), float(h), float(theta)

    def _frame(self, x, y):
        return rot(_f(x) - self.cx, _f(y) - self.cy, -self.theta)

    def inside(self, x, y):
        u, v = self._frame(x, y)
        return (np.abs(u) < self.w / 2) & (np.abs(v) < self.h / 2)

    def bdist(self, x, y):
        u, v = self._frame(x, y)
        qx, qy = np.abs(u) - self.w / 2, np.abs(v) - self.h / 2
        outside = np.hypot(np.maximum(qx, 0), np.maximum(qy, 0))
        inside = -np.maximum(qx, qy)
        return np.where((qx <= 0) & (qy <= 0), inside, outside)

    def centre(self):
        return self.cx, self.cy

    def moved(self, dx, dy):
        return Box(self.cx + dx, self.cy + dy, self.w, self.h, self.theta)

    def rotated(self, dt, cx=None, cy=None):
        return Box(self.cx, self.cy, self.w, self.h, self.theta + dt)

    def corners(self):
        us = np.array([-1, 1, 1, -1]) * self.w / 2
        vs = np.array([-1, -1, 1, 1]) * self.h / 2
        x, y = rot(us, vs, self.theta)
        return x + self.cx, y + self.cy

    def bbox(self):
        x, y = self.corners()
        return x.min(), x.max(), y.min(), y.max()

    def straddle(self, deltas):
        return Poly(*self.corners()).straddle(deltas)


class Disc(Shape):
    curved = True

    def __init__(self, cx, cy, r):
        self.cx, self.cy, self.r = float(cx), float(cy), float(r)

    def _r(self, x, y):
        return np.hypot(_f(x) - self.cx, _f(y) - self.cy)

    def inside(self, x, y):
        return self._r(x, y) < self.r

    def bdist(self, x, y):
        return np.abs(self._r(x, y) - self.r)

    def poly_exclude(self, x, y, band):
        r = self._r(x, y)
        return ~((r < self.r * CHORD_COS - band) | (r > self.r + band))

    def centre(self):
        return self.cx, self.cy

    def moved(self, dx, dy):
        return Disc(self.cx + dx, self.cy + dy, self.r)

    def bbox(self):
        return self.cx - self.r, self.cx + self.r, self.cy - self.r, self.cy + self.r

    def straddle(self, deltas, n=16):
        xs, ys = [], []
        for k in range(n):
            t = 2 * math.pi * (k + 0.37) / n
            for d in deltas:
                for sgn in (-1, 1):
                    xs.append(self.cx + (self.r + sgn * d) * math.cos(t))
                    ys.append(self.cy + (self.r + sgn * d) * math.sin(t))
        return np.array(xs), np.array(ys)


class Ring(Shape):
    """Annulus r0 <= r < r1 (the inner edge itself is boundary and therefore in the band)."""
    curved = True

    def __init__(self, cx, cy, r0, r1):
        self.cx, self.cy, self.r0, self.r1 = float(cx), float(cy), float(r0), float(r1)

    def _r(self, x, y):
        return np.hypot(_f(x) - self.cx, _f(y) - self.cy)

    def inside(self, x, y):
        r = self._r(x, y)
        return (r > self.r0) & (r < self.r1)

    def bdist(self, x, y):
        r = self._r(x, y)
        return np.minimum(np.abs(r - self.r0), np.abs(r - self.r1))

    def poly_exclude(self, x, y, band):
        r = self._r(x, y)
        ok = (r < self.r0 * CHORD_COS - band) | (r > self.r1 + band) | \
             ((r > self.r0 + band) & (r < self.r1 * CHORD_COS - band))
        # the polygon joins inner and outer circle along the ray theta = 0
        slit = seg_dist(_f(x), _f(y), self.cx + self.r0 * CHORD_COS, self.cy, self.cx + self.r1, self.cy)
        return ~(ok & (slit > band))

    def centre(self):
        return self.cx, self.cy

    def moved(self, dx, dy):
        return Ring(self.cx + dx, self.cy + dy, self.r0, self.r1)

    def bbox(self):
        return self.cx - self.r1, self.cx + self.r1, self.cy - self.r1, self.cy + self.r1

    def straddle(self, deltas):
        a = Disc(self.cx, self.cy, self.r0).straddle(deltas)
        b = Disc(self.cx, self.cy, self.r1).straddle(deltas)
        return np.concatenate([a[0], b[0]]), np.concatenate([a[1], b[1]])


class Oval(Shape):
    curved = True

    def __init__(self, cx, cy, a, b, theta=0.0):
        self.cx, self.cy, self.a, self.b, self.theta = float(cx), float(cy), float(a), float(b), float(theta)

    def _level(self, x, y):
        u, v = rot(_f(x) - self.cx, _f(y) - self.cy, -self.theta)
        return np.hypot(u / self.a, v / self.b)

    def inside(self, x, y):
        return self._level(x, y) < 1.0

    def bdist(self, x, y):
        # the level function is Lipschitz with constant 1/min(a,b):  |f(p) - 1| <= dist / min(a,b)
        return np.abs(self._level(x, y) - 1.0) * min(self.a, self.b)

    def poly_exclude(self, x, y, band):
        f = self._level(x, y)
        m = band / min(self.a, self.b)
        return ~((f < CHORD_COS - m) | (f > 1.0 + m))

    def centre(self):
        return self.cx, self.cy

    def moved(self, dx, dy):
        return Oval(self.cx + dx, self.cy + dy, self.a, self.b, self.theta)

    def rotated(self, dt, cx=None, cy=None):
        return Oval(self.cx, self.cy, self.a, self.b, self.theta + dt)

    def bbox(self):
        c, s = math.cos(self.theta), math.sin(self.theta)
        ex = math.hypot(self.a * c, self.b * s)
        ey = math.hypot(self.a * s, self.b * c)
        return self.cx - ex, self.cx + ex, self.cy - ey, self.cy + ey

    def straddle(self, deltas, n=16):
        xs, ys = [], []
        for k in range(n):
            t = 2 * math.pi * (k + 0.37) / n
            u, v = self.a * math.cos(t), self.b * math.sin(t)
            nu, nv = math.cos(t) / self.a, math.sin(t) / self.b      # gradient direction of the level function
            nn = math.hypot(nu, nv)
            nu, nv = nu / nn, nv / nn
            for d in deltas:
                for sgn in (-1, 1):
                    xs.append(u + sgn * d * nu)
                    ys.append(v + sgn * d * nv)
        x, y = rot(np.array(xs), np.array(ys), self.theta)
        return x + self.cx, y + self.cy


class Poly(Shape):
    """Simple (non self-intersecting) polygon, implicitly closed; even-odd ray casting."""

    def __init__(self, vx, vy):
        self.vx, self.vy = _f(vx).copy(), _f(vy).copy()

    def _edges(self):
        n = len(self.vx)
        for i in range(n):
            j = (i + 1) % n
            yield self.vx[i], self.vy[i], self.vx[j], self.vy[j]

    def inside(self, x, y):
        x, y = _f(x), _f(y)
        odd = np.zeros(np.broadcast(x, y).shape, dtype=bool)
        if len(self.vx) < 3:
            return odd
        for x1, y1, x2, y2 in self._edges():
            if y1 == y2:
                continue
            # half-open rule: an edge is crossed by the ray to +x iff exactly one end is strictly above
            straddles = (y1 > y) != (y2 > y)
            # orientation test: is the point strictly left of the edge point at height y?
            xi = x1 + (y - y1) * (x2 - x1) / (y2 - y1)
            odd ^= straddles & (x < xi)
        return odd

    def bdist(self, x, y):
        x, y = _f(x), _f(y)
        d = np.full(np.broadcast(x, y).shape, np.inf)
        for x1, y1, x2, y2 in self._edges():
            d = np.minimum(d, seg_dist(x, y, x1, y1, x2, y2))
        return d

    def moved(self, dx, dy):
        return Poly(self.vx + dx, self.vy + dy)

    def rotated(self, dt, cx, cy):
        x, y = rot(self.vx - cx, self.vy - cy, dt)
        return Poly(x + cx, y + cy)

    def area_centroid(self):
        """Signed area and centre of mass (definition; used only for reporting)."""
        x, y = self.vx - self.vx.mean(), self.vy - self.vy.mean()
        xn, yn = np.roll(x, -1), np.roll(y, -1)
        cr = x * yn - xn * y
        A = cr.sum() / 2
        if A == 0:
            return 0.0, None
        return A, (((x + xn) * cr).sum() / (6 * A) + self.vx.mean(), ((y + yn) * cr).sum() / (6 * A) + self.vy.mean())

    def bbox(self):
        return self.vx.min(), self.vx.max(), self.vy.min(), self.vy.max()

    def straddle(self, deltas):
        xs, ys = [], []
        for x1, y1, x2, y2 in self._edges():
            L = math.hypot(x2 - x1, y2 - y1)
            if L == 0:
                continue
            nx, ny = -(y2 - y1) / L, (x2 - x1) / L
            for t in (0.08, 0.5, 0.77):
                bx, by = x1 + t * (x2 - x1), y1 + t * (y2 - y1)
                for d in deltas:
                    for sgn in (-1, 1):
                        xs.append(bx + sgn * d * nx)
                        ys.append(by + sgn * d * ny)
        for vx, vy in zip(self.vx, self.vy):
            for d in deltas:
                for ax, ay in ((1, 1), (1, -1), (-1, 1), (-1, -1), (1, 0), (0, 1), (-1, 0), (0, -1)):
                    xs.append(vx + ax * d)
                    ys.append(vy + ay * d)
        return np.array(xs), np.array(ys)

    def aligned(self, n=7):
        """Points on the horizontal / vertical lines through the vertices (ray-through-vertex cases)."""
        x0, x1, y0, y1 = self.bbox()
        w, h = (x1 - x0) or 1.0, (y1 - y0) or 1.0
        gx = np.linspace(x0 - 0.23 * w, x1 + 0.27 * w, n)
        gy = np.linspace(y0 - 0.21 * h, y1 + 0.29 * h, n)
        xs = np.concatenate([np.tile(gx, len(self.vy)), np.repeat(self.vx, n)])
        ys = np.concatenate([np.repeat(self.vy, n), np.tile(gy, len(self.vx))])
        return xs, ys


class Strip(Shape):
    def __init__(self, ori, lo, hi):
        self.ori, self.lo, self.hi = ori, float(lo), float(hi)

    def _c(self, x, y):
        return _f(x) if self.ori == 'x' else _f(y)

    def inside(self, x, y):
        c = self._c(x, y)
        return (c > self.lo) & (c < self.hi)

    def bdist(self, x, y):
        c = self._c(x, y)
        return np.minimum(np.abs(c - self.lo), np.abs(c - self.hi))

    def centre(self):
        return (self.lo + self.hi) / 2

    def moved(self, d, _=None):
        return Strip(self.ori, self.lo + d, self.hi + d)

    def bbox(self):
        w = self.hi - self.lo
        if self.ori == 'x':
            return self.lo, self.hi, -w, w
        return -w, w, self.lo, self.hi

    def straddle(self, deltas):
        on, off = [], []
        w = self.hi - self.lo
        for e in (self.lo, self.hi):
            for d in deltas:
                for sgn in (-1, 1):
                    for o in (-3.1 * w, 0.0, 0.4 * w, 1e4):
                        on.append(e + sgn * d)
                        off.append(o)
        on, off = np.array(on), np.array(off)
        return (on, off) if self.ori == 'x' else (off, on)


class Projected(Shape):
    """A 2-d shape in screen space behind a 4x4 homogeneous projection."""

    def __init__(self, shape2d, matrix):
        self.s = shape2d
        self.m = [[float(v) for v in row] for row in matrix]

    def screen(self, x, y, z):
        x, y, z = _f(x), _f(y), _f(z)
        m = self.m
        h = [m[i][0] * x + m[i][1] * y + m[i][2] * z + m[i][3] for i in (0, 1, 3)]
        return h[0] / h[2], h[1] / h[2]

    def inside3(self, x, y, z):
        return self.s.inside(*self.screen(x, y, z))

    def bdist3(self, x, y, z):
        return self.s.bdist(*self.screen(x, y, z))

    def unproject(self, sx, sy, depth):
        """World points that land on screen position (sx, sy) with the given depth coordinate."""
        inv = np.linalg.inv(np.array(self.m))
        h = inv @ np.array([_f(sx), _f(sy), _f(depth), np.ones(np.shape(sx))])
        return h[0] / h[3], h[1] / h[3], h[2] / h[3]


def grid(shape, n, expand=1.5):
    """n x n lattice over the bounding box blown up by `expand` (slightly off-centre so that lattice
    lines do not coincide with symmetric edges)."""
    x0, x1, y0, y1 = shape.bbox()
    cx, cy = (x0 + x1) / 2, (y0 + y1) / 2
    hw = max((x1 - x0) / 2, 1e-3 * shape.size(), 1e-9) * expand
    hh = max((y1 - y0) / 2, 1e-3 * shape.size(), 1e-9) * expand
    gx = np.linspace(cx - hw * 1.013, cx + hw * 0.991, n)
    gy = np.linspace(cy - hh * 0.987, cy + hh * 1.017, n)
    return gx, gy


def points_for(shape, n=25):
    """(gx, gy, px, py): lattice axes and the full flat point list = lattice + straddle (+ aligned)."""
    gx, gy = grid(shape, n)
    X, Y = np.meshgrid(gx, gy)
    S = shape.size() or 1e-3 * shape.scale()
    # from just outside the band (band = 1e-6 * scale) upwards: a boundary displaced by a few bands is visible
    deltas = [4e-6 * S, 2e-5 * S, 1e-4 * S, 1e-3 * S, 3e-2 * S]
    sx, sy = shape.straddle(deltas)
    parts_x, parts_y = [X.ravel(), sx], [Y.ravel(), sy]
    if isinstance(shape, Poly):
        ax, ay = shape.aligned()
        parts_x.append(ax)
        parts_y.append(ay)
    return gx, gy, np.concatenate(parts_x), np.concatenate(parts_y)
