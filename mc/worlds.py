"""A small session world (data collection + subset groups + command stack) shared by the
history checks C06 and C13."""
import operator

import numpy as np

from . import core


def state_fp(state):
    """Structural fingerprint of a SubsetState (class + defining fields), identity-free."""
    from glue.core import subset as S
    from glue.core.component_id import ComponentID
    name = type(state).__name__
    if isinstance(state, S.CompositeSubsetState):
        return [name, state_fp(state.state1), state_fp(state.state2) if state.state2 is not None else None]
    if isinstance(state, S.InequalitySubsetState):
        f = lambda v: ('cid:' + v.label) if isinstance(v, ComponentID) else repr(v)
        return [name, state.operator.__name__, f(state.left), f(state.right)]
    if isinstance(state, S.RangeSubsetState):
        return [name, state.att.label, state.lo, state.hi]
    if isinstance(state, S.RoiSubsetState):
        r = state.roi
        return [name, state.xatt.label, state.yatt.label, type(r).__name__,
                [float(x) for x in (r.xmin, r.xmax, r.ymin, r.ymax)] if hasattr(r, 'xmin') else repr(r)]
    if type(state) is S.SubsetState:
        return [name]
    return [name, 'opaque']


class CollectionWorld(object):
    """Real Session + DataCollection with a pool of datasets and selection states.

    pool: d0, d1 (both shape (4,), components x, y), d2 (shape (2, 3), component z).
    d0 starts inside the collection (configurable)."""

    N_STATES = 3

    def __init__(self, initial=('d0',), groups0=0, edit0=False, max_undo=None):
        from glue.core import Data, DataCollection
        from glue.core.session import Session
        from glue.core import command
        self.violations = []
        self.cmdmod = command
        if max_undo is not None:
            command.MAX_UNDO = max_undo
        else:
            command.MAX_UNDO = 50
        self.pool = dict((n, self.fresh(n)) for n in ('d0', 'd1', 'd2'))
        d0 = self.pool['d0']
        self.cids = {'x': d0.id['x'], 'y': d0.id['y']}
        self.dc = DataCollection([self.pool[n] for n in initial])
        self.session = Session(data_collection=self.dc)
        self.stack = self.session.command_stack
        self.mode = self.session.edit_subset_mode
        self.removed_groups = []
        self.merged = False
        for i in range(groups0):
            self.dc.new_subset_group(subset_state=self.make_state(i))
        if edit0 and self.dc.subset_groups:
            self.mode.edit_subset = [self.dc.subset_groups[0]]

    @staticmethod
    def fresh(name):
        """A new dataset of the pool (never attached to any hub)."""
        from glue.core import Data
        if name == 'd0':
            return Data(label='d0', x=np.array([1., 2., 3., 4.]), y=np.array([4., 1., 3., 2.]))
        if name == 'd1':
            return Data(label='d1', x=np.array([2., 2., 5., 0.]), y=np.array([0., 3., 1., 5.]))
        return Data(label='d2', z=np.array([[1., 5., 2.], [4., 0., 3.]]))

    # -- ingredients ---------------------------------------------------------
    def make_state(self, k):
        """Fresh selection state number k; defined on d0's attributes (incompatible elsewhere)."""
        from glue.core.subset import RangeSubsetState
        if k == 0:
            return self.cids['x'] > 2
        if k == 1:
            return self.cids['y'] <= 2
        if k == 2:
            return RangeSubsetState(1.5, 3.5, att=self.cids['x'])
        raise core.EngineError('no state %r' % k)

    def make_roi_state(self, roi):
        from glue.core.subset import RoiSubsetState
        return RoiSubsetState(self.cids['x'], self.cids['y'], roi)

    def in_dc(self, name):
        return any(d is self.pool[name] for d in self.dc)

    def names_in_dc(self):
        inv = {id(d): n for n, d in self.pool.items()}
        return [inv.get(id(d), d.label) for d in self.dc]

    # -- observation -----------------------------------------------------------
    def mask_of(self, subset):
        from glue.core.exceptions import IncompatibleAttribute
        try:
            return np.asarray(subset.to_mask()).astype(int).ravel().tolist()
        except IncompatibleAttribute:
            return 'incompatible'

    def snapshot(self, with_labels=False):
        """Observable session state that undo/redo must restore (C13)."""
        groups = list(self.dc.subset_groups)
        gi = {id(g): i for i, g in enumerate(groups)}
        snap = dict(
            data=sorted(self.names_in_dc()),   # membership; position in the collection is not compared
            groups=[state_fp(g.subset_state) for g in groups],
            masks={n: [[gi.get(id(getattr(s, 'group', None)), '?'), self.mask_of(s)] for s in d.subsets]
                   for n, d in zip(self.names_in_dc(), self.dc)},
            edit=[gi.get(id(g), 'dead') for g in (self.mode.edit_subset or [])],
        )
        if with_labels:
            snap['labels'] = [g.label for g in groups]
        return snap

    def membership_violations(self):
        """C06 invariants I1-I4 on the real objects."""
        from glue.core.subset_group import GroupedSubset
        out = []
        groups = list(self.dc.subset_groups)
        names = self.names_in_dc()
        if len(set(id(g) for g in groups)) != len(groups):
            out.append(('I0-duplicate-group', len(groups), 'distinct groups'))
        for n, d in zip(names, self.dc):
            got = []
            for s in d.subsets:
                if isinstance(s, GroupedSubset) and any(s.group is g for g in groups):
                    got.append([i for i, g in enumerate(groups) if g is s.group][0])
                else:
                    got.append('foreign')
            if sorted(map(str, got)) != sorted(map(str, range(len(groups)))):
                out.append(('I1-one-subset-per-group', dict(dataset=n, subset_groups_on_dataset=got),
                            dict(expected_groups=list(range(len(groups))))))
            for s in d.subsets:
                if s.data is not d:
                    out.append(('I1-subset-data-pointer', n, 'subset.data is the dataset'))
        for i, g in enumerate(groups):
            want = []
            for d in self.dc:
                want += [s for s in d.subsets if getattr(s, 'group', None) is g]
            if len(g.subsets) != len(want) or set(map(id, g.subsets)) != set(map(id, want)) or \
                    len(g.subsets) != len(list(self.dc)):
                inv = {id(d): n for n, d in self.pool.items()}
                out.append(('I2-group-lists-its-subsets',
                            dict(group=i, listed=[inv.get(id(s.data), getattr(s.data, 'label', None)) for s in g.subsets]),
                            dict(datasets=names)))
            for s in g.subsets:
                if s.subset_state is not g.subset_state or s.label != g.label or s.style is not g.style:
                    out.append(('I3-members-share-group-fields', i, 'same state object, label, style'))
        for n, d in self.pool.items():
            if not self.in_dc(n):
                for g in groups:
                    if any(s.data is d for s in g.subsets):
                        out.append(('I4-removed-dataset-still-member', n, 'no live group lists it'))
        for g in self.removed_groups:
            for n, d in zip(names, self.dc):
                if any(getattr(s, 'group', None) is g for s in d.subsets):
                    out.append(('I4-removed-group-still-on-dataset', n, 'no subset of a removed group'))
        return out

    def canon(self):
        """Abstraction of the real state: everything the op alphabet can read."""
        from glue.core.subset_group import GroupedSubset
        groups = list(self.dc.subset_groups)
        gid = {id(g): i for i, g in enumerate(groups)}
        rid = {id(g): 'r%d' % i for i, g in enumerate(self.removed_groups)}

        def gname(s):
            g = getattr(s, 'group', None)
            return gid.get(id(g), rid.get(id(g), 'x'))
        per_data = {}
        for n, d in self.pool.items():
            per_data[n] = [gname(s) for s in d.subsets]
        inv = {id(d): n for n, d in self.pool.items()}
        c = dict(
            dc=self.names_in_dc(),
            subsets=per_data,
            groups=[[state_fp(g.subset_state), g.label, g.style.color,
                     [inv.get(id(s.data), 'm') for s in g.subsets]] for g in groups],
            removed=[[inv.get(id(s.data), 'm') for s in g.subsets] for g in self.removed_groups],
            edit=[gid.get(id(g), rid.get(id(g), 'x')) for g in (self.mode.edit_subset or [])],
            sg=self.dc._sg_count,
            merged=self.merged,
            mode=self.mode.mode.__name__,
        )
        return c


MODES = ['ReplaceMode', 'AndMode', 'OrMode', 'XorMode', 'AndNotMode', 'NewMode']


def mode_by_name(name):
    from glue.core import edit_subset_mode as E
    return getattr(E, name)
