"""./check CNN [--tier quick|thorough] [--replay FILE]   |   ./check --setup"""
import os
import sys
import json
import argparse
import importlib
import traceback

from . import core


def main(argv=None):
    ap = argparse.ArgumentParser()
    ap.add_argument('prop', nargs='?')
    ap.add_argument('--tier', default=os.environ.get('VERIF_TIER') or 'quick',
                    choices=['quick', 'thorough'])
    ap.add_argument('--replay')
    ap.add_argument('--setup', action='store_true')
    ap.add_argument('--jobs', type=int)
    a = ap.parse_args(argv)
    if a.jobs:
        os.environ['VERIF_JOBS'] = str(a.jobs)
    if a.setup:
        core.bind()
        for d in ('evidence', 'replays'):
            os.makedirs(os.path.join(core.VERIF, d), exist_ok=True)
        import glue
        print('setup ok: glue from', os.path.dirname(glue.__file__))
        return 0
    if not a.prop:
        ap.error('property id required')
    prop = a.prop.upper()
    try:
        core.bind()
        mod = importlib.import_module('checks.%s' % prop.lower())
        if a.replay:
            with open(a.replay) as f:
                doc = json.load(f)
            ok = mod.replay(doc)
            print('REPRODUCED' if ok else 'NOT REPRODUCED')
            return 1 if ok else 0
        return int(mod.run(a.tier) or 0)
    except core.EngineError as e:
        print('ENGINE-ERROR: property=%s\n%s' % (prop, e))
        return 2
    except Exception:
        traceback.print_exc()
        print('ENGINE-ERROR: property=%s unexpected exception in the machinery' % prop)
        return 2


if __name__ == '__main__':
    sys.exit(main())
