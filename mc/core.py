"""Shared infrastructure for the bounded-exhaustive checks.

* binding to the working tree ($GLUE_REPO, default /repo)
* per-execution reset of glue's process-global mutable state
* Result accumulation (counts, distinct signatures, samples, violations)
* known-findings matching, VIOLATION / KNOWN-FINDING printing, evidence files
* a fork-based worker pool with long-lived workers
"""
import os
import sys
import json
import time
import hashlib
import fnmatch
import traceback
import warnings
import multiprocessing as mp

VERIF = os.path.dirname(os.path.dirname(os.path.abspath(__file__)))
REPO = os.path.abspath(os.environ.get('GLUE_REPO', '/repo'))
GUARD = 'GLUE_VERIF'
os.environ.setdefault(GUARD, '1')
os.environ.setdefault('MPLBACKEND', 'Agg')

_bound = False


def bind():
    """Make `import glue` resolve to the tree under $GLUE_REPO and prove it."""
    global _bound
    if _bound:
        return
    warnings.filterwarnings('ignore')
    if sys.path[0] != REPO:
        sys.path.insert(0, REPO)
    import glue
    here = os.path.realpath(os.path.dirname(os.path.dirname(glue.__file__)))
    if here != os.path.realpath(REPO):
        raise SystemExit('ENGINE-ERROR: glue imported from %s, expected %s' % (here, REPO))
    import numpy as np
    np.seterr(all='ignore')
    _bound = True


_memo_funcs = None


def _find_memo_funcs():
    """All functions decorated with glue.core.decorators.memoize (have a
    name-mangled `__memoize_cache` dict) reachable from glue modules."""
    import types
    out = []
    seen = set()
    for name, mod in list(sys.modules.items()):
        if not name.startswith('glue') or mod is None:
            continue
        for v in list(vars(mod).values()):
            cands = []
            if isinstance(v, type):
                cands = list(vars(v).values())
            elif isinstance(v, types.FunctionType):
                cands = [v]
            for f in cands:
                d = getattr(f, '__dict__', None)
                if isinstance(d, dict) and '__memoize_cache' in d and id(f) not in seen:
                    seen.add(id(f))
                    out.append(f)
    return out


def reset_globals(rescan=False):
    """Clear glue's process-global caches.  Called BETWEEN executions only."""
    global _memo_funcs
    bind()
    if _memo_funcs is None or rescan:
        _memo_funcs = _find_memo_funcs()
    for f in _memo_funcs:
        f.__dict__['__memoize_cache'].clear()
    frb = sys.modules.get('glue.core.fixed_resolution_buffer')
    if frb is not None:
        frb.ARRAY_CACHE.clear()
        frb.PIXEL_CACHE.clear()
    reg = sys.modules.get('glue.core.registry')
    if reg is not None:
        reg.Registry().clear()


def seed():
    try:
        return int(os.environ.get('VERIF_SEED', '0'))
    except ValueError:
        return 0


def rotate(seq, k=None):
    """Deterministic rotation of an enumeration order by the seed (the set of
    cases never changes, only the order in which they are visited)."""
    seq = list(seq)
    if not seq:
        return seq
    k = (seed() if k is None else k) % len(seq)
    return seq[k:] + seq[:k]


def jdefault(o):
    import numpy as np
    if isinstance(o, np.ndarray):
        return {'ndarray': o.tolist(), 'dtype': str(o.dtype)}
    if isinstance(o, (np.integer,)):
        return int(o)
    if isinstance(o, (np.floating,)):
        return float(o)
    if isinstance(o, (np.bool_,)):
        return bool(o)
    if isinstance(o, (set, frozenset)):
        return sorted(o, key=repr)
    if isinstance(o, slice):
        return 'slice(%r,%r,%r)' % (o.start, o.stop, o.step)
    if o is Ellipsis:
        return '...'
    if isinstance(o, bytes):
        return o.decode('latin1')
    return repr(o)


def jdump(o, **kw):
    return json.dumps(o, default=jdefault, **kw)


def short_hash(o):
    if not isinstance(o, (str, bytes)):
        o = jdump(o, sort_keys=True)
    if isinstance(o, str):
        o = o.encode()
    return hashlib.sha1(o).hexdigest()[:12]


class Result(object):
    """Mergeable accumulator; one per shard, merged in the master."""

    MAX_SAMPLES = 6
    MAX_VIOL = 400

    def __init__(self):
        self.evaluations = 0
        self.sigs = set()          # hashes of distinct non-trivial cases
        self.samples = []
        self.violations = []       # dicts: clause,key,case,observed,expected
        self.viol_count = 0
        self.counts = {}           # free-form named counters
        self.notes = []

    def case(self, sig=None, sample=None, n=1):
        self.evaluations += n
        if sig is not None:
            self.sigs.add(sig if isinstance(sig, (int, bytes)) else short_hash(sig))
        if sample is not None and len(self.samples) < self.MAX_SAMPLES:
            self.samples.append(sample)

    def count(self, name, n=1):
        self.counts[name] = self.counts.get(name, 0) + n

    def violation(self, clause, key, case, observed=None, expected=None, detail=None):
        self.viol_count += 1
        # keep at most a few per key, but always the first
        same = sum(1 for v in self.violations if v['key'] == key)
        if same >= 3 or len(self.violations) >= self.MAX_VIOL:
            self.count('violations_elided')
            return
        self.violations.append(dict(clause=clause, key=key, case=case,
                                    observed=observed, expected=expected, detail=detail))

    def merge(self, other):
        self.evaluations += other.evaluations
        self.sigs |= other.sigs
        for s in other.samples:
            if len(self.samples) < self.MAX_SAMPLES:
                self.samples.append(s)
        for v in other.violations:
            same = sum(1 for w in self.violations if w['key'] == v['key'])
            if same < 3 and len(self.violations) < self.MAX_VIOL:
                self.violations.append(v)
        self.viol_count += other.viol_count
        for k, n in other.counts.items():
            self.counts[k] = self.counts.get(k, 0) + n
        self.notes.extend(other.notes)
        return self


# ---------------------------------------------------------------------------
# worker pool
# ---------------------------------------------------------------------------

def _call(args):
    fn, item = args
    try:
        return ('ok', fn(item))
    except BaseException:
        return ('err', traceback.format_exc())


def jobs():
    try:
        return max(1, int(os.environ.get('VERIF_JOBS', '0')) or (os.cpu_count() or 4))
    except ValueError:
        return os.cpu_count() or 4


def pmap(fn, items, njobs=None, chunksize=1):
    """Run module-level `fn` over items in long-lived forked workers and yield
    results (unordered).  An exception in a worker is an engine error."""
    items = list(items)
    njobs = njobs or jobs()
    if njobs <= 1 or len(items) <= 1:
        for it in items:
            st, r = _call((fn, it))
            if st == 'err':
                raise EngineError(r)
            yield r
        return
    ctx = mp.get_context('fork')
    with ctx.Pool(min(njobs, len(items))) as pool:
        for st, r in pool.imap_unordered(_call, [(fn, it) for it in items], chunksize):
            if st == 'err':
                pool.terminate()
                raise EngineError(r)
            yield r


class EngineError(Exception):
    pass


# ---------------------------------------------------------------------------
# known findings, reporting, evidence
# ---------------------------------------------------------------------------

def load_known(prop):
    path = os.path.join(VERIF, 'known_findings.json')
    if not os.path.exists(path):
        return []
    with open(path) as f:
        doc = json.load(f)
    out = [e for e in doc.get('findings', [])
           if e.get('property') == prop and e.get('status') == 'open']
    # development aid only (never set by registered commands): honour not-yet-reviewed proposals
    prop_path = os.path.join(VERIF, 'known_findings.d', '%s.json' % prop)
    if os.environ.get('VERIF_KNOWN_PROPOSALS') and os.path.exists(prop_path):
        with open(prop_path) as f:
            out += [e for e in json.load(f).get('findings', [])
                    if e.get('property') == prop and e.get('status') == 'open']
    return out


def match_known(known, key):
    for e in known:
        pats = e['key'] if isinstance(e['key'], list) else [e['key']]
        if any(key == p or fnmatch.fnmatchcase(key, p) for p in pats):
            return e
    return None


def write_replay(prop, v):
    # runs against a scratch tree (mutants) must not pollute the committed replays
    d = os.path.join(VERIF, 'replays', prop) if os.path.realpath(REPO) == '/repo' else \
        os.path.join(VERIF, 'replays', '_scratch', prop)
    os.makedirs(d, exist_ok=True)
    doc = dict(property=prop, clause=v['clause'], key=v['key'], case=v['case'],
               observed=v.get('observed'), expected=v.get('expected'), detail=v.get('detail'))
    path = os.path.join(d, '%s.json' % short_hash(v['key']))
    with open(path, 'w') as f:
        f.write(jdump(doc, indent=1, sort_keys=True))
        f.write('\n')
    return path


def finish(prop, tier, result, level, rule, t0, coverage=None, assumptions=None,
           confirm=None):
    """Print findings / violations, write evidence, return the exit code.

    confirm(case_doc) -> bool re-executes a violation without the explorer;
    a violation that does not reproduce twice is an engine error (exit 2)."""
    known = load_known(prop)
    seen_known = {}
    new = {}
    for v in result.violations:
        e = match_known(known, v['key'])
        if e is not None:
            seen_known.setdefault(_kid(e), (e, v))
        else:
            new.setdefault(v['key'], v)
    code = 0
    for k, (e, v) in sorted(seen_known.items()):
        write_replay(prop, v)
        print('KNOWN-FINDING: property=%s %s' % (prop, e['what']))
    for k, v in sorted(new.items()):
        if confirm is not None:
            try:
                ok = confirm(v) and confirm(v)
            except Exception:
                traceback.print_exc()
                ok = False
            if not ok:
                print('ENGINE-NONDETERMINISM: property=%s violation %s did not reproduce on replay'
                      % (prop, k))
                code = max(code, 2)
                continue
        v['_confirmed'] = True
        path = write_replay(prop, v)
        print('VIOLATION property=%s replay=%s' % (prop, path))
        print('   clause=%s key=%s' % (v['clause'], v['key']))
        if v.get('observed') is not None or v.get('expected') is not None:
            print('   observed=%s' % _clip(v.get('observed')))
            print('   expected=%s' % _clip(v.get('expected')))
        if v.get('detail'):
            print('   detail=%s' % _clip(v.get('detail')))
        code = max(code, 1)
    if code == 2 and any(True for k, v in new.items() if v.get('_confirmed')):
        # some violations reproduced, another one did not (behaviour that depends on object addresses, e.g. set
        # iteration order): the reproduced ones decide - exit 1 with their VIOLATION lines
        code = 1
    cov = dict(coverage or {})
    cov.setdefault('evaluations', int(result.evaluations))
    cov.setdefault('distinct_nontrivial', len(result.sigs))
    cov.setdefault('rule', rule)
    cov.setdefault('samples', result.samples or ['(none)'])
    cov.setdefault('exhaustive', True)
    for k, n in sorted(result.counts.items()):
        cov.setdefault(k, n)
    cov['known_findings_seen'] = sorted(seen_known)
    cov['known_findings_listed_open'] = sorted(_kid(e) for e in known)
    if result.notes:
        cov['notes'] = result.notes[:20]
    ev = dict(property_id=prop, tier=tier, seed=seed(), level=level, coverage=cov,
              assumptions=assumptions or [], wall_s=round(time.time() - t0, 2),
              violations=len(new), repo=REPO)
    evdir = os.path.join(VERIF, 'evidence') if os.path.realpath(REPO) == '/repo' else \
        os.path.join(VERIF, 'evidence', '_scratch')
    os.makedirs(evdir, exist_ok=True)
    with open(os.path.join(evdir, '%s.json' % prop), 'w') as f:
        f.write(jdump(ev, indent=1, sort_keys=True))
        f.write('\n')
    print('%s tier=%s seed=%d evaluations=%d distinct=%d violations(new)=%d known=%d wall=%.1fs'
          % (prop, tier, seed(), cov['evaluations'], cov['distinct_nontrivial'], len(new),
             len(seen_known), time.time() - t0))
    return code


def _kid(e):
    return e['key'] if isinstance(e['key'], str) else ' || '.join(e['key'])


def _clip(o, n=600):
    s = o if isinstance(o, str) else jdump(o)
    return s if len(s) <= n else s[:n] + '...'


def run_shards(fn, shards, njobs=None):
    """fn(shard) -> Result; merged in the master."""
    total = Result()
    for r in pmap(fn, shards, njobs):
        total.merge(r)
    return total


def split(items, n=None):
    """Round-robin split of a list into <= n non-empty shards (deterministic)."""
    items = list(items)
    n = n or jobs() * 3
    shards = [items[i::n] for i in range(n)]
    return [s for s in shards if s]
