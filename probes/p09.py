import warnings, itertools, collections
warnings.filterwarnings('ignore')
import numpy as np
from glue.core import Data
from glue.core.subset import roi_to_subset_state
from glue.core.roi import *
res=collections.Counter(); ex={}
cats_sets=[['a'],['b','a'],['c','a','bb'],['d','a','c','bb']]
for cats in cats_sets:
  k=len(cats)
  for perm in (itertools.permutations(range(k)) if k<=3 else [tuple(range(k)),tuple(reversed(range(k)))]):
    rows=[cats[i] for i in perm]*2
    n=len(rows)
    xn=np.linspace(-0.6,k-0.4,n); yn=np.linspace(k-0.3,-0.7,n).copy(); yn[0]=np.nan
    a=np.array(rows); b=np.array(rows[::-1])
    d=Data(xn=xn,yn=yn,a=a,b=b,label='d')
    edges=[c+f for c in range(-1,k+1) for f in (0.25,0.5,0.75)]
    rois=[]
    for lo,hi in itertools.combinations(edges,2):
        rois.append(('xr',XRangeROI(lo,hi))); rois.append(('yr',YRangeROI(lo,hi)))
    for (lo,hi),(lo2,hi2) in itertools.product(list(itertools.combinations(edges[::2],2)),repeat=2):
        rois.append(('rect',RectangularROI(lo,hi,lo2,hi2)))
    for cx,cy,r in itertools.product(edges[::3],edges[1::3],(0.6,1.3,2.2)):
        rois.append(('circ',CircularROI(cx,cy,r))); rois.append(('ell',EllipticalROI(cx,cy,r,r/2)))
        rois.append(('poly',PolygonalROI([cx-r,cx+r,cx+0.1],[cy-r/2,cy-r/3,cy+r])))
        rois.append(('polyL',PolygonalROI([cx-r,cx+r,cx+r,cx,cx,cx-r],[cy-r,cy-r,cy,cy,cy+r,cy+r])))
    for xk,yk in itertools.product(('num','cat'),repeat=2):
        xatt=d.id['xn'] if xk=='num' else d.id['a']; yatt=d.id['yn'] if yk=='num' else d.id['b']
        px=np.asarray(d[xatt]) if xk=='num' else d[xatt].codes; py=np.asarray(d[yatt]) if yk=='num' else d[yatt].codes
        xc=d.get_component(xatt).categories if xk=='cat' else None; yc=d.get_component(yatt).categories if yk=='cat' else None
        for name,roi in rois:
            try:
                st=roi_to_subset_state(roi,x_att=xatt,y_att=yatt,x_categories=xc,y_categories=yc)
                got=d.get_mask(st)
                exp=roi.contains(px,py)
                # exclude near-boundary: perturb test
                eps=1e-6
                stable=np.ones(n,bool)
                for dx,dy in ((eps,0),(-eps,0),(0,eps),(0,-eps)):
                    stable&=(roi.contains(px+dx,py+dy)==exp)
                stable&=~(np.isnan(px)|np.isnan(py)) | True
                bad=(got!=exp)&stable
                s='ok' if not bad.any() else 'MISMATCH'
            except Exception as e: s='EXC:'+type(e).__name__+str(e)[:50]
            res[(xk,yk,name,s)]+=1
            if s!='ok': ex.setdefault((xk,yk,name,s),(cats,perm,roi.__dict__, px[bad] if s=='MISMATCH' else None, py[bad] if s=='MISMATCH' else None, got[bad] if s=='MISMATCH' else None))
tot=collections.Counter()
for k_,v in res.items(): tot[k_[-1][:8]]+=v
print(tot)
for k_,v in sorted(res.items()):
    if k_[-1]!='ok': print(k_,v); print('    ',ex[k_])
