import warnings, itertools, collections
warnings.filterwarnings('ignore')
import numpy as np
from glue.core import Data, DataCollection
from glue.core.link_helpers import LinkSame, LinkTwoWay
from glue.core import fixed_resolution_buffer as frb
from glue.core.subset import RoiSubsetState
from glue.core.roi import RectangularROI
def world(perm, scale, off):
    R=Data(r=np.arange(24.).reshape(2,3,4),label='R')
    shp=tuple(np.array((2,3,4))[list(perm)])
    S=Data(s=(np.arange(24.)*10+1).reshape(shp),label='S')
    dc=DataCollection([R,S])
    fs=[]
    for ia,(ra) in enumerate(perm):   # S axis ia <-> R axis perm[ia]
        a,b=scale[ia],off[ia]
        f=(lambda a,b:(lambda x:a*x+b))(a,b); g=(lambda a,b:(lambda y:(y-b)/a))(a,b)
        dc.add_link(LinkTwoWay(R.pixel_component_ids[ra], S.pixel_component_ids[ia], f, g))
        fs.append((ra,a,b))
    return R,S,dc,fs
def oracle(S, fs, bounds, cid=None, mask=None):
    grids=[np.linspace(*b) if isinstance(b,tuple) else np.array([b]) for b in bounds]
    G=np.meshgrid(*grids,indexing='ij')
    idx=[]; invalid=np.zeros(G[0].shape,bool)
    for ia,(ra,a,b) in enumerate(fs):
        q=np.round(a*G[ra]+b).astype(int); bad=(q<0)|(q>=S.shape[ia]); invalid|=bad; q=np.where(bad,0,q); idx.append(q)
    if cid is not None:
        out=S[cid][tuple(idx)].astype(float); out[invalid]=np.nan
    else:
        out=mask[tuple(idx)].copy(); out[invalid]=False
    sl=tuple(slice(None) if isinstance(b,tuple) else 0 for b in bounds)
    return out[sl]
def eq(a,b):
    a=np.asarray(a); b=np.asarray(b)
    if a.shape!=b.shape: return False
    if a.dtype==bool: return bool((a==b).all())
    return bool(((a==b)|(np.isnan(a)&np.isnan(b))).all())
res=collections.Counter(); ex={}
bpal=lambda n:[0,1,-1,n,(0,n-1,n),(-1,n,n+2),(0.2,n-1.2,3),(n+1,n+3,2)]
for perm in [(0,1,2),(2,0,1),(1,0,2)]:
  for scale,off in [((1,1,1),(0,0,0)),((2,1,0.5),(0,1,-1.3))]:
    R,S,dc,fs=world(perm,scale,off)
    st=RoiSubsetState(S.pixel_component_ids[-1],S.pixel_component_ids[-2],RectangularROI(0.5,2.5,-0.5,1.5)); fm=S.get_mask(st)
    reqs=[]
    for b in itertools.product(bpal(2),bpal(3),bpal(4)):
        if not any(isinstance(x,tuple) for x in b): continue
        reqs.append(list(b))
    for b in reqs:
        for kind in ('val','mask'):
            try:
                if kind=='val': got=S.compute_fixed_resolution_buffer(b,target_data=R,target_cid=S.id['s']); exp=oracle(S,fs,b,cid=S.id['s'])
                else: got=S.compute_fixed_resolution_buffer(b,target_data=R,subset_state=st); exp=oracle(S,fs,b,mask=fm)
                s='ok' if eq(got,exp) else 'MISMATCH'
            except Exception as e: s='EXC:'+type(e).__name__+':'+str(e)[:40]
            res[(perm,scale!= (1,1,1),kind,s)]+=1
            if s!='ok' and (perm,kind,s) not in ex: ex[(perm,kind,s)]=(b,)
    # cache sequences of length 3 over 8 requests
    alpha=[('val',[0,(0,2,3),(0,3,4)]),('val',[1,(0,2,3),(0,3,4)]),('val',[(0,1,2),1,(0,3,4)]),('val',[(0,1,2),(0,2,3),2]),('mask',[0,(0,2,3),(0,3,4)]),('mask',[1,(-1,3,5),(0,3,4)]),('val',[(0,1,2),(0,2,3),(0,3,4)]),('val',[1,(0,2,3),(1,3,3)])]
    def run(r,cache):
        k,b=r
        if k=='val': return S.compute_fixed_resolution_buffer(list(b),target_data=R,target_cid=S.id['s'],cache_id=cache)
        return S.compute_fixed_resolution_buffer(list(b),target_data=R,subset_state=st,cache_id=cache)
    nseq=0;bad=0
    for seq in itertools.product(range(len(alpha)),repeat=3):
        frb.ARRAY_CACHE.clear(); frb.PIXEL_CACHE.clear(); nseq+=1
        for i in seq:
            a=run(alpha[i],'cid'); b_=run(alpha[i],None)
            if not eq(a,b_): bad+=1; ex.setdefault(('cache',perm),seq); break
    res[('cache',perm,scale!=(1,1,1),'bad=%d'%bad)]+=nseq
for k,v in sorted(res.items(),key=str): print(k,v)
for k,v in ex.items(): print('EX',k,v)
