import warnings, json, logging; warnings.filterwarnings('ignore'); logging.disable(logging.CRITICAL)
import numpy as np
from glue.core import Data, DataCollection
from glue.core.state import GlueSerializer, GlueUnSerializer
from glue.core.link_helpers import LinkSame
from glue.core.coordinates import AffineCoordinates
from glue.core.component_link import ComponentLink
def world():
    d=Data(x=np.arange(6.).reshape(2,3), c=np.array(list('abcabc')).reshape(2,3), label='d', coords=AffineCoordinates(np.array([[2.,0,1],[0,3,2],[0,0,1]])))
    d['der']=d.id['x']*2
    e=Data(y=np.arange(4.), k=np.array([1,2,1,2]), label='e'); f=Data(z=np.arange(3.), k2=np.array([1,2,3]), label='f')
    e.join_on_key(f,'k','k2')
    dc=DataCollection([d,e,f]); dc.add_link(LinkSame(e.id['y'],f.id['z']))
    dc.new_subset_group('g1', d.id['x']>2); dc.new_subset_group('g2', e.id['y']>1)
    d.style.color='#123456'; d.meta['a']=1
    return dc
def observe(dc):
    out={}
    for d in dc:
        o={'comps':[c.label for c in d.components],'style':d.style.color,'subsets':[s.label for s in d.subsets],'uuid':d.uuid,'meta':dict(d.meta),
           'joins':sorted(k.label for k in d._key_joins)}
        for c in d.components:
            try: v=np.asarray(d[c]); o['v:'+c.label]=v.tolist()
            except Exception as ex: o['v:'+c.label]='EXC '+type(ex).__name__
        o['masks']=[]
        for s in d.subsets:
            try: o['masks'].append(s.to_mask().tolist())
            except Exception as ex: o['masks'].append('EXC '+type(ex).__name__)
        o['ext']=sorted(c.label for c in d.externally_derivable_components)
        out[d.label]=o
    out['#groups']=len(dc.subset_groups); out['sg']=dc._sg_count; out['links']=len(dc.external_links)
    return out
base=observe(world())
def roundtrip(dv, cv):
    dc=world()
    gs=GlueSerializer(dc, include_data=True)
    # monkeypatch dispatch for this serializer: choose versions
    orig=gs._dispatch
    def disp(obj):
        fun,ver=orig(obj)
        if type(obj) is Data: return GlueSerializer.dispatch.get_version(Data,dv), dv
        if type(obj) is DataCollection: return GlueSerializer.dispatch.get_version(DataCollection,cv), cv
        return fun,ver
    gs._dispatch=disp
    s=gs.dumps()
    return observe(GlueUnSerializer.loads(s).object('__main__'))
for cv in (1,2,3,4):
    for dv in (1,2,3,4,5):
        try:
            o=roundtrip(dv,cv)
            diffs=[]
            for k in base:
                if isinstance(base[k],dict):
                    for kk in base[k]:
                        if o.get(k,{}).get(kk)!=base[k][kk]: diffs.append('%s.%s'%(k,kk))
                elif o.get(k)!=base[k]: diffs.append('%s: %r vs %r'%(k,o.get(k),base[k]))
            print('DC v%d Data v%d'%(cv,dv), 'diffs:', diffs)
        except Exception as ex:
            import traceback
            print('DC v%d Data v%d'%(cv,dv), 'EXC', type(ex).__name__, str(ex)[:150])
print('-----detail')
b=observe(world())
for cv,dv in ((4,5),(3,5),(1,1)):
    o=roundtrip(dv,cv)
    print('DC v%d Data v%d'%(cv,dv))
    for k in ('comps','v:der','ext','joins','meta','style'):
        print('   d.%s'%k, 'orig', b['d'].get(k), '| got', o['d'].get(k))
    print('   e.joins orig', b['e']['joins'], 'got', o['e']['joins'], ' links', b['links'], o['links'], ' e.ext', b['e']['ext'], o['e']['ext'], 'f.ext', b['f']['ext'], o['f']['ext'])
    print('   masks d', b['d']['masks'], o['d']['masks'], ' e', b['e']['masks'], o['e']['masks'],' f', b['f']['masks'], o['f']['masks'])
