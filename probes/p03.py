import warnings, itertools, collections, time
warnings.filterwarnings('ignore')
import numpy as np
from glue.core import Data, DataCollection
from glue.core.component_link import ComponentLink
from glue.core.link_helpers import LinkSame, LinkTwoWay
from glue.core.exceptions import IncompatibleAttribute
from glue.core.registry import Registry
T=np.array([0.,1.,2.,5.])
def build(hist):
    Registry().clear()
    coef={}  # cid -> (a,b)
    D=[]
    k=1
    for i in range(3):
        comps={}
        for j in range(2):
            a,b=k+1,k*3-4; k+=1
            comps['c%d%d'%(i,j)]=a*T+b
        d=Data(label='d%d'%i,**comps); D.append(d)
        for j in range(2): coef[d.id['c%d%d'%(i,j)]]=None
    k=1
    for d in D:
        for j in range(2):
            coef[d.id['c%s%d'%(d.label[1],j)]]=(k+1,k*3-4); k+=1
    c=lambda i,j: D[i].id['c%d%d'%(i,j)]
    def aff(src,dst):
        (a1,b1),(a2,b2)=coef[src],coef[dst]
        return lambda x:(x-b1)/a1*a2+b2
    def two(src1,src2,dst):
        (a1,b1),(a3,b3)=coef[src1],coef[dst]
        return lambda x,y:(x-b1)/a1*a3+b3
    links=[
      ComponentLink([c(0,0)],c(1,0),using=aff(c(0,0),c(1,0))),                     # one-way 0->1
      LinkTwoWay(c(1,1),c(2,0),aff(c(1,1),c(2,0)),aff(c(2,0),c(1,1))),            # two-way 1<->2
      LinkSame(c(0,1),c(2,1)),                                                    # identity 0<->2 (values differ! identity => inconsistent) 
      ComponentLink([c(1,0),c(1,1)],c(0,0),using=two(c(1,0),c(1,1),c(0,0))),      # multi-input 1->0
      ComponentLink([c(2,0)],c(0,0),using=aff(c(2,0),c(0,0))),                    # closes cycle 2->0
    ]
    dc=DataCollection(D)
    reg=set()
    for op in hist:
        if op[0]=='add': dc.add_link(links[op[1]]); reg.add(op[1])
        elif op[0]=='rm': dc.remove_link(links[op[1]]); reg.discard(op[1])
        elif op[0]=='rmdata': dc.remove(D[op[1]])
        elif op[0]=='adddata': dc.append(D[op[1]])
    return D,dc,links,coef,reg
# just evaluate: for several histories print readable matrix
def obs(D,dc,coef):
    out={}
    for d in dc:
        for cid in coef:
            try:
                v=np.asarray(d[cid]); a,b=coef[cid]
                out[(d.label,cid.label)]= 'ok' if np.allclose(v,a*T+b) else 'VAL'
            except IncompatibleAttribute: out[(d.label,cid.label)]='-'
    return out
for hist in [[],[('add',0)],[('add',0),('add',1)],[('add',0),('add',1),('add',4)],[('add',0),('add',1),('add',4),('rm',1)],[('add',1),('rmdata',2)],[('add',1),('rmdata',2),('adddata',2)],[('add',3)],[('add',3),('add',1)]]:
    D,dc,links,coef,reg=build(hist)
    o=obs(D,dc,coef)
    print(hist); 
    for d in dc: print('  ',d.label,''.join(o[(d.label,c.label)][0] for c in coef), [c.label for c in d.externally_derivable_components], )
    print('   links',len(dc.external_links))
t=time.time(); n=0
for h in itertools.product([('add',i) for i in range(5)]+[('rm',i) for i in range(5)],repeat=3):
    # well-formed only
    reg=set(); ok=True
    for op in h:
        if op[0]=='add':
            if op[1] in reg: ok=False;break
            reg.add(op[1])
        else:
            if op[1] not in reg: ok=False;break
            reg.discard(op[1])
    if not ok: continue
    D,dc,links,coef,reg=build(h); obs(D,dc,coef); n+=1
print(n,'histories',time.time()-t)
