import warnings, time, logging; warnings.filterwarnings('ignore'); logging.disable(logging.CRITICAL)
import matplotlib; matplotlib.use('Agg')
from matplotlib.backend_bases import FigureCanvasBase
from matplotlib.backends.backend_agg import FigureCanvasAgg
for cls in (FigureCanvasBase, FigureCanvasAgg):
    cls.draw=lambda self,*a,**k: None; cls.draw_idle=lambda self,*a,**k: None
import numpy as np, matplotlib.pyplot as plt
from glue.core import Data
from glue.core.application_base import Application
from glue.viewers.scatter.viewer import SimpleScatterViewer
from glue.viewers.histogram.viewer import SimpleHistogramViewer
from glue.viewers.image.viewer import SimpleImageViewer
from glue.viewers.profile.viewer import SimpleProfileViewer
from glue.viewers.common.viewer import Viewer
from glue.core.state import GlueSerializer, GlueUnSerializer
def scen(cls):
    app=Application(); d=Data(x=np.arange(6.).reshape(2,3),y=np.arange(6.).reshape(2,3),label='a'); e=Data(z=np.arange(6.).reshape(2,3),label='b')
    dc=app.data_collection; dc.append(d); dc.append(e)
    v=app.new_data_viewer(cls); v.add_data(d); g=dc.new_subset_group('s', d.id['x']>1); v.add_data(e); dc.remove(d); dc.append(d); dc.remove_subset_group(g)
    r=(len(v.layers), len(v.state.layers))
    if hasattr(v,'figure'): plt.close(v.figure)
    return r, v, app
for cls in (Viewer, SimpleScatterViewer, SimpleHistogramViewer, SimpleImageViewer, SimpleProfileViewer):
    try:
        scen(cls); t=time.time()
        for i in range(5): r,v,app=scen(cls)
        print(cls.__name__, '%.3f s'%((time.time()-t)/5), r)
    except Exception as e: print(cls.__name__,'EXC',type(e).__name__,str(e)[:100])
# save/restore of each viewer
for cls in (SimpleScatterViewer, SimpleHistogramViewer, SimpleImageViewer, SimpleProfileViewer):
    app=Application(); d=Data(x=np.arange(6.).reshape(2,3),y=np.arange(6.).reshape(2,3),label='a'); app.data_collection.append(d)
    v=app.new_data_viewer(cls); v.add_data(d); app.data_collection.new_subset_group('s', d.id['x']>1)
    try:
        gs=GlueSerializer(v); gs.id(app); s=gs.dumps()
        v2=GlueUnSerializer.loads(s).object('__main__'); print(cls.__name__,'restore ok', len(v2.layers), len(v2.state.layers))
    except Exception as e: print(cls.__name__,'restore EXC',type(e).__name__,str(e)[:120])
