import warnings; warnings.filterwarnings('ignore')
import numpy as np
from glue.core import Data, DataCollection, Hub, HubListener
from glue.core.message import Message
from glue.core.component_id import ComponentID
from glue.core.coordinates import AffineCoordinates, IdentityCoordinates
log=[]
class L(HubListener):
    def notify(self,m):
        log.append((type(m).__name__, getattr(getattr(m,'component_id',None),'label',None) or getattr(m,'attribute',None)))
def run(name,f):
    log.clear()
    try: r=f(); e=''
    except Exception as ex: e=' EXC '+type(ex).__name__+': '+str(ex)[:60]
    print('%-34s'%name, log, e)
d=Data(x=[1.,2,3],y=[2.,3,4],label='d'); dc=DataCollection([d]); l=L(); dc.hub.subscribe(l,Message)
run('add z', lambda: d.add_component([1,2,3],'z'))
run('add wrong shape', lambda: d.add_component([1,2],'w'))
run('add derived', lambda: d.add_component_link(d.id['x']+d.id['y'],'s'))
run('add derived2 (on s)', lambda: d.add_component_link(d.id['s']*2,'s2'))
run('reorder same', lambda: d.reorder_components(d.components))
run('reorder rev', lambda: d.reorder_components(d.components[::-1]))
run('reorder invalid', lambda: d.reorder_components(d.components[:-1]))
run('rename', lambda: setattr(d.id['z'],'label','zz'))
new=ComponentID('znew')
run('update_id', lambda: d.update_id(d.id['zz'],new))
run('update_components', lambda: d.update_components({d.id['x']:[5.,6,7]}))
run('update_components wrong', lambda: d.update_components({d.id['x']:[5.,6]}))
run('remove x (dependents s,s2)', lambda: d.remove_component(d.id['x']))
print('   comps now', [c.label for c in d.components])
run('remove absent', lambda: d.remove_component(ComponentID('nope')))
run('coords affine', lambda: setattr(d,'coords',AffineCoordinates(np.array([[2.,1],[0,1]]))))
print('   comps now', [c.label for c in d.components], 'world', [c.label for c in d.world_component_ids], 'pix', [c.label for c in d.pixel_component_ids])
run('coords identity', lambda: setattr(d,'coords',IdentityCoordinates(n_dim=1)))
run('coords none', lambda: setattr(d,'coords',None))
print('   comps now', [c.label for c in d.components])
o=Data(y=[9.,8,7,6],q=[1,2,3,4],label='o')
run('update_values_from_data newshape', lambda: d.update_values_from_data(o))
print('   comps now', [c.label for c in d.components], d.shape, [np.asarray(d[c]).shape for c in d.components])
run('label', lambda: setattr(d,'label','renamed'))
run('find dup', lambda: None)
d.add_component([1,2,3,4],'y')
print('   find y ->', d.find_component_id('y'), [c.label for c in d.components])
