import warnings, itertools, collections, os, logging
warnings.filterwarnings('ignore'); logging.disable(logging.CRITICAL)
import numpy as np
from glue.core import Data, DataCollection
from glue.core.data_factories import load_data
from glue.config import data_exporter
import glue.core.data_exporters
from glue.core.data_exporters.astropy_table import csv_exporter, fits_exporter, votable_exporter
from glue.core.data_exporters.hdf5 import hdf5_writer
from glue.core.data_exporters.gridded_fits import fits_writer
res=collections.Counter(); ex={}
cols={'f':np.array([1.5,np.nan,-3.25]),'i':np.array([4,5,-6]),'s':np.array(['ab','c d','xyz'])}
fmts={'csv':(csv_exporter,'csv'),'fits':(fits_exporter,'fits'),'vot':(votable_exporter,'vot'),'h5':(hdf5_writer,'hdf5')}
def same(o,g,kind):
    g=np.asarray(g); o=np.asarray(o)
    if o.shape!=g.shape: return 'shape %s vs %s'%(o.shape,g.shape)
    if kind=='s':
        gs=np.array([x.decode() if isinstance(x,bytes) else str(x) for x in g.ravel()]).reshape(g.shape)
        return None if (gs==o).all() else 'text %r vs %r'%(gs.tolist(),o.tolist())
    try: gf=g.astype(float)
    except Exception: return 'dtype %s'%g.dtype
    ok=((gf==o)|(np.isnan(gf)&np.isnan(o.astype(float)))).all()
    return None if ok else 'vals %r vs %r'%(gf.tolist(),o.tolist())
n=0
for r in range(1,4):
  for names in itertools.combinations('fis',r):
    for nrow in (1,3):
      d=Data(label='t',**{('col_'+k):cols[k][:nrow] for k in names})
      dc=DataCollection([d])
      masks={'whole':None,'empty':np.zeros(nrow,bool),'full':np.ones(nrow,bool)}
      if nrow>1: masks['proper']=np.array([True,False,True])
      for mk,m in masks.items():
        for fk,(fn,ext) in fmts.items():
          path='io/t%d.%s'%(n,ext); n+=1
          try:
            if m is None: obj=d
            else:
                g=dc.new_subset_group('s',d.id['col_'+names[0]]==d.id['col_'+names[0]]); 
                from glue.core.subset import MaskSubsetState
                g.subset_state=MaskSubsetState(m,d.pixel_component_ids); obj=d.subsets[-1]
            fn(path,obj)
            back=load_data(path)
            if isinstance(back,list): back=back[0]
            labs=[c.label for c in back.main_components]
            want=['col_'+k for k in names]
            if labs!=want: s='LABELS %r'%labs
            else:
                s='ok'
                for k in names:
                    o=cols[k][:nrow]
                    if m is not None: o=o[m]
                    e=same(o,back['col_'+k],k)
                    if e: s='VAL:'+k+':'+e; break
          except Exception as e: s='EXC:'+type(e).__name__+':'+str(e)[:60]
          finally:
            if m is not None: dc.remove_subset_group(g)
            if os.path.exists(path): os.remove(path)
          key=(fk,''.join(names),nrow,mk,s[:40]); res[key]+=1
          if s!='ok': ex.setdefault(key,s)
tot=collections.Counter()
for k,v in res.items(): tot[k[-1][:3]]+=v
print(tot)
for k,v in sorted(res.items()):
    if k[-1]!='ok': print(k, ex[k][:200])
