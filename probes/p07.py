import warnings, itertools, collections, time, gc
warnings.filterwarnings('ignore')
from glue.core.hub import Hub, HubListener
from glue.core.message import Message
class Ma(Message): pass
class Mb(Ma): pass
class Mc(Message): pass
CLS={'Ma':Ma,'Mb':Mb,'Mc':Mc,'M':Message}
SUP={'Ma':['Ma','M'],'Mb':['Mb','Ma','M'],'Mc':['Mc','M'],'M':['M']}   # most specific first
FILT={'all':lambda m:True,'even':lambda m:m.tag%2==0}
class Model:
    def __init__(s): s.subs={}; s.order=[]; s.delay=0; s.ign=collections.Counter(); s.q=[]; s.log=[]
    def subscribe(s,l,c,f,p):
        if l not in s.subs: s.subs[l]={}; 
        s.subs[l][c]=(f,p)
    def unsubscribe(s,l,c):
        if l in s.subs: s.subs[l].pop(c,None)
    def unsubscribe_all(s,l): s.subs.pop(l,None)
    def broadcast(s,c,tag):
        if s.ign[c]>0: return
        if s.delay>0: s.q.append((c,tag)); return
        s.deliver(c,tag)
    def deliver(s,c,tag):
        rec=[]
        for l,d in s.subs.items():
            cand=[x for x in SUP[c] if x in d]
            if not cand: continue
            f,p=d[cand[0]]
            if FILT[f](type('T',(),{'tag':tag})): rec.append((l,p))
        for l,p in sorted(rec,key=lambda x:-x[1]): s.log.append((l,c,tag,p))
    def enter_delay(s): s.delay+=1
    def exit_delay(s):
        s.delay-=1
        if s.delay==0:
            q,s.q=s.q,[]
            for c,t in q: s.broadcast(c,t)
    def enter_ign(s,c): s.ign[c]+=1
    def exit_ign(s,c): s.ign[c]-=1
class Real:
    def __init__(s):
        s.hub=Hub(); s.log=[]; s.L={}; s.stack=[]
        for n in 'AB':
            class Lis(HubListener):
                def __init__(self,name,log): self.name=name; self.log=log
                def notify(self,m): self.log.append((self.name,type(m).__name__,m.tag))
            s.L[n]=Lis(n,s.log)
    def subscribe(s,l,c,f,p): s.hub.subscribe(s.L[l],CLS[c],filter=FILT[f],priority=p)
    def unsubscribe(s,l,c): s.hub.unsubscribe(s.L[l],CLS[c])
    def unsubscribe_all(s,l): s.hub.unsubscribe_all(s.L[l])
    def broadcast(s,c,tag): s.hub.broadcast(CLS[c](None,tag=tag))
    def enter_delay(s): cm=s.hub.delay_callbacks(); cm.__enter__(); s.stack.append(cm)
    def exit_delay(s): s.stack.pop().__exit__(None,None,None)
    def enter_ign(s,c): cm=s.hub.ignore_callbacks(CLS[c]); cm.__enter__(); s.stack.append(cm)
    def exit_ign(s,c): s.stack.pop().__exit__(None,None,None)
ops=[('subscribe','A','Ma','all',10),('subscribe','A','M','even',10),('subscribe','B','Mb','all',20),('subscribe','B','Ma','all',10),('unsubscribe','A','Ma'),('unsubscribe_all','B'),
     ('broadcast','Ma'),('broadcast','Mb'),('broadcast','Mc'),('enter_delay',),('exit_delay',),('enter_ign','Mb'),('exit_ign','Mb')]
def run(seq, nested_ok):
    m=Model(); r=Real(); stack=[]; tag=0
    for op in seq:
        k=op[0]
        if k=='enter_delay':
            if not nested_ok and 'd' in stack: return None
            stack.append('d')
        elif k=='exit_delay':
            if not stack or stack[-1]!='d': return None
            stack.pop()
        elif k=='enter_ign': stack.append('i')
        elif k=='exit_ign':
            if not stack or stack[-1]!='i': return None
            stack.pop()
        args=op[1:]
        if k=='broadcast': tag+=1; args=(op[1],tag)
        getattr(m,k)(*args); getattr(r,k)(*args)
        ml=[(l,c,t) for l,c,t,p in m.log]
        if ml!=r.log:
            # allow tie reordering? report
            return ('DIFF',seq,ml,r.log)
    return ('ok',)
for nested_ok in (False,True):
    t=time.time(); n=0; bad=[]
    for depth in range(1,6):
        for seq in itertools.product(ops,repeat=depth):
            res=run(seq,nested_ok)
            if res is None: continue
            n+=1
            if res[0]!='ok': bad.append(res)
        if bad: break
    print('nested_ok',nested_ok,'histories',n,'bad',len(bad),'%.1fs'%(time.time()-t))
    for b in bad[:3]: print('   ',b[1]); print('      model',b[2]); print('      real ',b[3])
