import warnings, itertools, collections, sys
warnings.filterwarnings('ignore')
import numpy as np
from glue.core import Data, DataCollection
from glue.core.coordinates import AffineCoordinates
from glue.core.component_link import ComponentLink
from glue.core.link_helpers import LinkSame
from glue.core.exceptions import IncompatibleAttribute

def mk(shape):
    n=int(np.prod(shape)); nd=len(shape)
    vals=np.arange(n,dtype=float).reshape(shape)*1.5-3; vals.flat[1]=np.nan
    m=np.eye(nd+1); 
    for i in range(nd): m[i,i]=2+i; m[i,-1]=i+1
    if nd>=2: m[0,1]=0.5; m[1,0]=0.25
    d=Data(x=vals, i=np.arange(n).reshape(shape), c=np.array(list('abcabcabcabcabcabcabcabc')[:n]).reshape(shape), coords=AffineCoordinates(m), label='d')
    d['der']=d.id['x']*2+d.id['i']
    def f(a): return a+1
    d.add_component_link(ComponentLink([d.id['x']], __import__('glue.core.component_id',fromlist=['ComponentID']).ComponentID('fn'), using=f))
    d2=Data(y=vals*10, label='e')
    dc=DataCollection([d,d2]); dc.add_link(LinkSame(d.id['x'], d2.id['y']))
    return d,d2,dc

def views(shape):
    nd=len(shape)
    pal=[slice(None), slice(1,None), slice(None,-1), slice(None,None,2), slice(1,None,2), slice(1,2), slice(0,0)]
    out=[('none',None),('ellipsis',Ellipsis)]
    for L in range(1,nd+1):
        for t in itertools.product(pal, repeat=L): out.append(('slices%d'%L,t))
    # mixed ints
    for L in range(1,nd+1):
        for t in itertools.product([0,1,slice(None),slice(1,None)], repeat=L):
            if any(isinstance(v,int) for v in t) and any(isinstance(v,slice) for v in t): out.append(('mixed%d'%L,t))
        for t in itertools.product([0,1], repeat=L): out.append(('ints%d'%L,t))
    # index arrays
    idx=tuple(np.array([0,s-1,0]) for s in shape); out.append(('idxarr1d',idx))
    idx=tuple(np.array([[0,s-1],[s-1,0]]) for s in shape); out.append(('idxarr2d',idx))
    bm=np.zeros(shape,bool); bm.flat[::2]=True; out.append(('boolmask',bm))
    if nd==1:
        out.append(('bare_slice', slice(1,None))); out.append(('bare_int', 1)); out.append(('bare_idxarr', np.array([0,2])))
    return out
res=collections.Counter(); ex={}
for shape in [(5,),(3,4),(2,3,4)]:
    d,d2,dc=mk(shape)
    cids={'float':d.id['x'],'int':d.id['i'],'cat':d.id['c'],'der':d.id['der'],'fn':d.id['fn'],'pix0':d.pixel_component_ids[0],'pixL':d.pixel_component_ids[-1],'w0':d.world_component_ids[0],'wL':d.world_component_ids[-1]}
    for kind,cid in cids.items():
        full=np.asarray(d[cid])
        for vk,v in views(shape):
            try: exp=full[v] if v is not None else full
            except Exception as e: continue
            try:
                got=np.asarray(d[cid,v])
                ok = got.shape==exp.shape and ((got==exp)|((got!=got)&(exp!=exp))).all() if got.dtype.kind!='U' else (got.shape==exp.shape and (got==exp).all())
                st='ok' if ok else 'MISMATCH'
            except Exception as e:
                st='EXC:'+type(e).__name__
            res[(len(shape),kind,vk,st)]+=1
            if st!='ok' and (len(shape),kind,vk,st) not in ex: ex[(len(shape),kind,vk,st)]=(v, )
    # linked
    full=np.asarray(d2[d.id['x']])
    for vk,v in views(shape):
        try: exp=full[v] if v is not None else full
        except Exception: continue
        try:
            got=np.asarray(d2[d.id['x'],v]); ok=got.shape==exp.shape and ((got==exp)|((got!=got)&(exp!=exp))).all(); st='ok' if ok else 'MISMATCH'
        except Exception as e: st='EXC:'+type(e).__name__
        res[(len(shape),'linked',vk,st)]+=1
        if st!='ok' and (len(shape),'linked',vk,st) not in ex: ex[(len(shape),'linked',vk,st)]=(v,)
tot=collections.Counter()
for k,v in res.items(): tot[k[3]]+=v
print(tot)
for k,v in sorted(res.items()):
    if k[3]!='ok': print(k,v, ex.get(k))
