import warnings, time, logging; warnings.filterwarnings('ignore'); logging.disable(logging.CRITICAL)
import matplotlib; matplotlib.use('Agg')
import numpy as np
from glue.core import Data
from glue.core.application_base import Application
from glue.viewers.scatter.viewer import SimpleScatterViewer
from glue.viewers.histogram.viewer import SimpleHistogramViewer
from glue.viewers.image.viewer import SimpleImageViewer
from glue.viewers.profile.viewer import SimpleProfileViewer
from glue.core.state import GlueSerializer, GlueUnSerializer
for cls in (SimpleScatterViewer, SimpleHistogramViewer, SimpleImageViewer, SimpleProfileViewer):
    app=Application(); d=Data(x=np.arange(6.).reshape(2,3),y=np.arange(6.).reshape(2,3),label='a'); app.data_collection.append(d)
    v=app.new_data_viewer(cls); v.add_data(d); app.data_collection.new_subset_group('s', d.id['x']>1)
    try:
        gs=GlueSerializer(app, include_data=True); name=gs.id(v); s=gs.dumps()
        u=GlueUnSerializer.loads(s); app2=u.object('__main__'); v2=u.object(name)
        print(cls.__name__,'restore ok', len(v2.layers), len(v2.state.layers), [type(l.layer).__name__ for l in v2.layers])
    except Exception as e: print(cls.__name__,'restore EXC',type(e).__name__,str(e)[:160])
