import warnings, itertools, collections
warnings.filterwarnings('ignore')
import numpy as np
from glue.core import Data
from glue.core.subset import SliceSubsetState, MaskSubsetState, RoiSubsetState
from glue.core.roi import RectangularROI
np.seterr(all='ignore')
def ref(stat, vals, mask, axis, finite, positive, pct):
    vals=np.array(vals,dtype=float)
    keep=np.ones(vals.shape,bool)
    if mask is not None: keep&=mask
    if finite: keep&=np.isfinite(vals)
    if positive: keep&=vals>0
    v=np.where(keep, vals, np.nan)
    # inf handling when finite False: keep infs
    f={'minimum':np.nanmin,'maximum':np.nanmax,'mean':np.nanmean,'median':np.nanmedian,'sum':None,'percentile':None}[stat]
    with warnings.catch_warnings():
        warnings.simplefilter('ignore')
        if stat=='sum':
            r=np.nansum(v,axis=axis); cnt=np.sum(~np.isnan(v),axis=axis); r=np.where(cnt==0,np.nan,r)
        elif stat=='percentile': r=np.nanpercentile(v,pct,axis=axis)
        else: r=f(v,axis=axis)
    return np.asarray(r,dtype=float)
def eq(a,b):
    a=np.asarray(a,dtype=float); b=np.asarray(b,dtype=float)
    if a.shape!=b.shape: return False
    return bool(np.all((np.isclose(a,b,rtol=1e-12,atol=0))|(np.isnan(a)&np.isnan(b))|((a==b))))
res=collections.Counter(); ex={}
for shape in [(6,),(3,4),(2,3,4)]:
    nd=len(shape); n=int(np.prod(shape))
    vals=(np.arange(n,dtype=float)*1.5-4).reshape(shape); vals.flat[1]=np.nan; vals.flat[n-2]=np.inf
    d=Data(x=vals,label='d'); cid=d.id['x']
    states={'none':None,'ineq':cid>-1,'empty':cid>1e9,
            'slice':SliceSubsetState(d,[slice(1,None)]+[slice(None,None,2)]*(nd-1)),
            'mask':MaskSubsetState((np.arange(n).reshape(shape)%3)!=0, d.pixel_component_ids)}
    if nd>=2: states['pixroi']=RoiSubsetState(d.pixel_component_ids[-1], d.pixel_component_ids[-2], RectangularROI(0.5,2.5,-0.5,1.5))
    axes=[None]+[a for r in range(1,nd+1) for a in itertools.combinations(range(nd),r)]
    pal=[slice(None),slice(1,None),slice(None,None,2),0]
    views=[None]+[t for L in range(1,nd+1) for t in itertools.product(pal,repeat=L)]
    for (sk,st),axis,view,stat,finite,positive in itertools.product(states.items(),axes,views,['minimum','mean','median','sum','percentile'],[True,False],[False,True]):
        full=np.asarray(d[cid]); fmask=None if st is None else d.get_mask(st)
        v=full if view is None else full[view]; m=None if fmask is None else (fmask if view is None else fmask[view])
        vnd=np.ndim(v)
        if axis is not None and any(a>=vnd for a in axis): continue
        if vnd==0: continue
        ax = axis if axis is None or len(axis)>1 else axis  # tuple
        try: exp=ref(stat,v,m,ax,finite,positive,30)
        except Exception as e: continue
        for nchunk in ([None,1,3] if (view is None and axis is not None and len(axis)==nd-1 and nd>1) else [None]):
            kw=dict(subset_state=st,axis=ax,finite=finite,positive=positive,view=view)
            if stat=='percentile': kw['percentile']=30
            if nchunk: kw['n_chunk_max']=nchunk
            try:
                got=d.compute_statistic(stat,cid,**kw)
                s='ok' if eq(got,exp) else 'MISMATCH'
            except Exception as e:
                s='EXC:'+type(e).__name__
            vk='none' if view is None else ('ints' if any(isinstance(q,int) for q in view) else ('step' if any(q.step for q in view) else 'unit'))+str(len(view))
            key=(nd,sk,'ax='+str(axis),vk,'chunk' if nchunk else '',s)
            res[key]+=1
            if s!='ok' and key not in ex: ex[key]=(stat,finite,positive,view,repr(got)[:80] if s=='MISMATCH' else '',repr(exp)[:80])
tot=collections.Counter()
for k,v in res.items(): tot[k[-1]]+=v
print(tot)
bad=[(k,v) for k,v in sorted(res.items()) if k[-1]!='ok']
print(len(bad),'bad classes')
for k,v in bad[:60]: print(k,v,ex[k])
