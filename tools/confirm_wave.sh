#!/bin/sh
# tools/confirm_wave.sh <suffix e.g. -4> CNN...  : confirm the finished seeds of a wave, three at a time
suf=$1; shift
for c in "$@"; do git -C /repo worktree remove --force /tmp/seed-$c$suf 2>/dev/null; done
printf '%s\n' "$@" | xargs -P 3 -I{} sh -c "/verif/tools/seedcheck.py S-{}$suf {} /tmp/seedout-{}$suf > /tmp/confirm-{}$suf.log 2>&1"
for c in "$@"; do echo "== $c"; tail -3 /tmp/confirm-$c$suf.log | cut -c1-230; done
