#!/venv/bin/python
"""tools/seedcheck.py <seed-id> <prop> <outdir-with-patch.diff+demo.py> [--checks C01,C05] [--no-baseline]

Confirms a seeded property-breaking change independently and files it under /verif/seeded/<seed-id>/:
  1. fresh scratch worktree of /repo HEAD under /dev/shm, patch applied;
  2. demo fails with the patch, passes without (run on a second clean worktree);
  3. repository baseline (stable_pass) still passes with the patch;
  4. the registered quick checks (default: the property's own) are run with GLUE_REPO=<scratch>;
  5. meta.json records all outcomes; worktrees removed.
"""
import os
import sys
import json
import shutil
import subprocess
import time

args = sys.argv[1:]
sid, prop, out = args[0], args[1], args[2]
checks = [prop]
baseline = True
tier = 'quick'
for i, a in enumerate(args):
    if a == '--checks':
        checks = args[i + 1].split(',')
    if a == '--no-baseline':
        baseline = False
    if a == '--tier':
        tier = args[i + 1]


def sh(cmd, cwd=None, env=None, timeout=3600):
    e = dict(os.environ)
    if env:
        e.update(env)
    p = subprocess.run(cmd, shell=True, cwd=cwd, env=e, stdout=subprocess.PIPE, stderr=subprocess.STDOUT,
                       text=True, timeout=timeout)
    return p.returncode, p.stdout


wt = '/dev/shm/glue-mut-%s' % sid
clean = '/dev/shm/glue-clean-%s' % sid
for d in (wt, clean):
    sh('git -C /repo worktree remove --force %s' % d)
    shutil.rmtree(d, ignore_errors=True)
meta = dict(id=sid, property=prop, repo_head=sh('git -C /repo rev-parse --short HEAD')[1].strip(),
            date=time.strftime('%Y-%m-%d %H:%M'))
try:
    assert sh('git -C /repo worktree add -q --detach %s HEAD' % wt)[0] == 0
    assert sh('git -C /repo worktree add -q --detach %s HEAD' % clean)[0] == 0
    rc, o = sh('git apply %s/patch.diff' % out, cwd=wt)
    if rc != 0:
        print('PATCH DOES NOT APPLY', o)
        sys.exit(2)
    demo = os.path.join(out, 'demo.py')
    is_pytest = 'def test_' in open(demo).read() and '__main__' not in open(demo).read()
    runner = '/venv/bin/python -m pytest -q -p no:cacheprovider %s' % demo if is_pytest else '/venv/bin/python %s' % demo
    rc_with, o_with = sh(runner, cwd=wt, env={'PYTHONPATH': wt, 'GLUE_SRC': wt})
    rc_without, o_without = sh(runner, cwd=clean, env={'PYTHONPATH': clean, 'GLUE_SRC': clean})
    meta['demo'] = dict(cmd=runner, exit_with_change=rc_with, exit_without_change=rc_without,
                        tail_with=o_with.strip().splitlines()[-3:], tail_without=o_without.strip().splitlines()[-2:])
    print('demo: with change exit=%d, without exit=%d' % (rc_with, rc_without))
    if baseline:
        rc, o = sh('/venv/bin/python /verif/tools/baseline.py %s -n 5' % wt)
        meta['baseline'] = dict(exit=rc, lines=o.strip().splitlines()[-2:])
        print('baseline:', o.strip().splitlines()[-1])
    meta['checks'] = {}
    for c in checks:
        t = time.time()
        rc, o = sh('./check %s --tier %s' % (c, tier), cwd='/verif', env={'GLUE_REPO': wt})
        viol = [l for l in o.splitlines() if l.startswith('VIOLATION')]
        keys = [l.strip() for l in o.splitlines() if l.strip().startswith('clause=')][:6]
        meta['checks'][c] = dict(tier=tier, exit=rc, violations=len(viol), first_keys=keys, wall_s=round(time.time() - t, 1))
        print('check %s: exit=%d violations=%d %s' % (c, rc, len(viol), keys[:2]))
finally:
    for d in (wt, clean):
        sh('git -C /repo worktree remove --force %s' % d)
        shutil.rmtree(d, ignore_errors=True)
dst = '/verif/seeded/%s' % sid
os.makedirs(dst, exist_ok=True)
if os.path.realpath(out) != os.path.realpath(dst):
    shutil.copy(os.path.join(out, 'patch.diff'), dst)
    shutil.copy(os.path.join(out, 'demo.py'), dst)
    if os.path.exists(os.path.join(out, 'notes.md')):
        shutil.copy(os.path.join(out, 'notes.md'), dst)
old = {}
if os.path.exists(os.path.join(dst, 'meta.json')):
    old = json.load(open(os.path.join(dst, 'meta.json')))
if not baseline and 'baseline' in old:
    meta['baseline'] = old['baseline']
old.update(meta)
json.dump(old, open(os.path.join(dst, 'meta.json'), 'w'), indent=1)
print('filed under', dst)
