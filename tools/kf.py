#!/venv/bin/python
"""tools/kf.py fixed CNN <commit> "<what>"   |   tools/kf.py open CNN <proposal-index|all>   (from known_findings.d/CNN.json)
   tools/kf.py ready CNN [CNN...]  (mark checks ready in gen_manifest)"""
import sys, json, re
p = '/verif/known_findings.json'
d = json.load(open(p))
cmd = sys.argv[1]
if cmd == 'fixed':
    d['fixed'].append('fixed: property=%s %s %s' % (sys.argv[2], sys.argv[3], sys.argv[4]))
elif cmd == 'open':
    prop = sys.argv[2]
    src = json.load(open('/verif/known_findings.d/%s.json' % prop))['findings']
    which = sys.argv[3:]
    for i, e in enumerate(src):
        if which == ['all'] or str(i) in which:
            e = {k: e[k] for k in ('property', 'key', 'what', 'status', 'repro') if k in e}
            if not any(x.get('property') == prop and x.get('key') == e['key'] for x in d['findings']):
                d['findings'].append(e)
elif cmd == 'ready':
    g = '/verif/tools/gen_manifest.py'
    s = open(g).read()
    m = re.search(r"READY = \[(.*?)\]", s)
    cur = set(re.findall(r"'(C\d+)'", m.group(1))) | set(sys.argv[2:])
    s = s.replace(m.group(0), 'READY = [%s]' % ', '.join("'%s'" % c for c in sorted(cur)))
    open(g, 'w').write(s)
    sys.exit(0)
json.dump(d, open(p, 'w'), indent=1)
