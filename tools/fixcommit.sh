#!/bin/sh
# tools/fixcommit.sh <diff-name-without-ext> <message-file>   -> applies proposed_fixes/<name>.diff to /repo and commits
set -e
cd /repo
git apply --check /verif/proposed_fixes/$1.diff
git apply /verif/proposed_fixes/$1.diff
git add -A
git commit -q -F "$2"
echo "committed $1 $(git log --format=%h -1)"
