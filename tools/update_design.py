#!/venv/bin/python
"""Regenerates the seeded-changes table of DESIGN.md (between the seedtable markers) from seeded/*/meta.json."""
import subprocess, re
p = '/verif/DESIGN.md'
s = open(p).read()
table = subprocess.run(['/verif/tools/seedtable.py'], capture_output=True, text=True).stdout.strip()
block = '<!-- seedtable:begin -->\n%s\n<!-- seedtable:end -->' % table
if 'SEEDTABLE' in s:
    s = s.replace('SEEDTABLE', block)
else:
    s = re.sub(r'<!-- seedtable:begin -->.*?<!-- seedtable:end -->', lambda m: block, s, flags=re.S)
open(p, 'w').write(s)
print('table rows:', table.count('\n') - 1)
