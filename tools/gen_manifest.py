#!/venv/bin/python
"""Regenerates /verif/MANIFEST.json from the table below (only checks whose module exists are claimed)."""
import os
import json

V = os.path.dirname(os.path.dirname(os.path.abspath(__file__)))
BASE = json.load(open('/root/.vp/BASELINE.json'))

MC = 'model_checking'
EX = 'exploration'
T = {
 'C01': (EX, 'bounded-exhaustive enumeration of selection expression trees and edit-mode sequences on the real code vs numpy fold',
         'Every expression tree over every elementary selection kind up to the depth bound, on 1-3-d datasets, and every edit-mode sequence up to the length bound is evaluated on the real code and compared with the same Boolean fold of separately evaluated part masks; operand immutability and evaluation-order independence are checked on every tree.',
         'bounded: tree depth, leaf palette, dataset shapes/values; numpy boolean operators are the oracle'),
 'C02': (EX, 'bounded-exhaustive enumeration of generated sessions, save/load/observe on the real serializer',
         'Every session in a compositional grammar (datasets x component kinds x coords x links x every SubsetState/Roi class found by introspection, alone and nested) is saved and restored with the real serializer and compared observationally; idempotence is checked by a second round-trip.',
         'bounded grammar; observational equality as defined in DESIGN C02; json text round trip through the real GlueSerializer/GlueUnSerializer'),
 'C03': (MC, 'explicit-state BFS over link/component/dataset operation histories on the real DataCollection vs a reachability model',
         'All histories of add/remove link, add/remove component, remove/re-append dataset and delayed link-manager updates over a pool of datasets and links are executed on the real DataCollection in lock-step with a breadth-first reachability model; after every step every (dataset, attribute) pair is checked for readability, value and mask.',
         'hidden-parameter family of affine links (any chain yields the same value); state de-duplication on a canonical form computed from the real objects'),
 'C04': (EX, 'bounded-exhaustive enumeration of (dataset, attribute kind / selection kind, view) on the real code vs numpy indexing of the full result',
         'The complete product of shapes x attribute kinds x selection kinds x view alphabet (and every IndexedData index tuple and index change) is evaluated and compared with numpy indexing of the un-viewed result.',
         'bounded shapes and view alphabet (the documented view domain); numpy indexing is the oracle'),
 'C05': (MC, 'exhaustive enumeration of evaluate/mutate histories on the real code with a never-evaluated twin as oracle',
         'All interleavings (to the length bound) of evaluations and mutations over a pool of selection kinds are run on real objects; every observable must equal that of a fresh twin to which only the mutations were applied.',
         'differential oracle: the twin is built by the same real code without any earlier evaluation; no de-duplication because cache contents are part of the state'),
 'C06': (MC, 'explicit-state BFS over collection/subset-group/undo histories on the real DataCollection with membership model',
         'All histories of append/remove/re-append/merge/clear, group creation/removal/edits, command-stack undo/redo and session restore up to the depth bound are run on the real objects; the membership invariants are evaluated in every reached state.',
         'state de-duplication on a canonical form computed from the real objects (incl. leftovers on removed datasets)'),
 'C07': (MC, 'explicit-state BFS over hub operation histories with bounded handler re-entrancy scripts on the real Hub vs a reference model',
         'All well-formed histories of subscribe/unsubscribe/broadcast/delay/ignore/listener death, with up to k armed handler scripts (re-entrant broadcast, nested delay blocks, subscribe/unsubscribe inside a handler), are executed on the real Hub in lock-step with a reference model; per-step log equality, at-most-once and nothing-while-delayed are checked.',
         'handlers do not raise; LIFO context managers; immediate refcount death of listeners; no priority ties between listeners'),
 'C08': (EX, 'bounded-exhaustive enumeration of region parameters x transforms x point lattices vs analytic geometry',
         'Every region class on a parameter lattice (including rotation angles at and next to multiples of pi/2), every move/rotate/copy/serialise transform and every array layout/chunk size is evaluated on a point lattice and compared with independent analytic predicates outside a boundary band.',
         'parameter and point lattices; boundary band excluded as the statement allows'),
 'C09': (EX, 'bounded-exhaustive enumeration of category sets/orders x axis kinds x regions vs analytic geometry and roi.contains on plotted positions',
         'All category sets and row orders, the four axis-kind combinations and every region class swept across the integer category positions are turned into selections by the real roi_to_subset_state and compared with the region own contains() on plotted positions, which in turn must agree with independent analytic geometry away from the boundary.',
         'region geometry itself is C08; boundary band excluded'),
 'C10': (EX, 'bounded-exhaustive enumeration of statistic/histogram requests vs numpy definitions',
         'The complete product of shapes x value palettes x statistics x axes x selections x views x filters x chunk limits (and histogram bins/ranges/log) is computed by the real code and compared with the numpy definition.',
         'bounded shapes/palettes; random_subset excluded'),
 'C11': (EX, 'bounded-exhaustive enumeration of key tables, join shapes and selected-row subsets vs set-membership oracle',
         'Every key table over small alphabets and dtypes, the four join shapes, every subset of selected rows, both directions, chains and cycles is evaluated on the real join code and compared with by-value key membership.',
         'bounded table sizes and alphabets'),
 'C12': (EX, 'complete enumeration of the saver/loader registries and the rename table, old-version records replayed through the real loaders',
         'Every (type, version) pair in the dispatch registries is exercised with generated objects, VersionedDict is explored over all setitem sequences against a model, and every rename-table entry is resolved to its fixed point.',
         'per-version expectation table (what version v can express) from DESIGN C12'),
 'C13': (MC, 'explicit-state BFS over do/undo/redo histories on the real CommandStack vs snapshot model',
         'All histories over the command classes with undo/redo up to the depth bound run on a real Session; after every undo/redo the observable snapshot must equal the one recorded by the model.',
         'snapshot = datasets, groups, labels, selections fingerprints, masks, edit_subset'),
 'C14': (EX, 'bounded-exhaustive enumeration of expression trees/parsed strings x views, and add/remove/update_id histories vs dependency model',
         'All arithmetic expression trees to the depth bound over all attribute kinds, user functions and parsed strings are evaluated for all views and compared with numpy; all add/remove/update_id histories are compared with a dependency-graph model.',
         'bounded depth, constants, shapes'),
 'C15': (EX, 'bounded-exhaustive enumeration of affine coupling patterns x shapes x views vs direct transformation',
         'Every invertible zero/non-zero pattern of the affine matrix for 1-3 dims is instantiated and world attributes, links and inverses are compared with direct calls of the coordinate object for all views.',
         'Identity/Affine coordinates only (no WCS)'),
 'C16': (EX, 'bounded-exhaustive enumeration of link geometries x bounds and all request sequences under one cache id vs nearest-pixel oracle',
         'All axis permutations/scales/offsets x bounds x value/mask requests are compared with nearest-pixel resampling; all request sequences up to the length bound are compared with and without a cache id.',
         'data and links unchanged inside a sequence'),
 'C17': (MC, 'explicit-state BFS over Data mutation histories on the real Data (+hub log) vs structural model',
         'All histories of add/remove/reorder/rename/update_id/update_components/update_values_from_data/coords changes (valid and invalid) are run on a real Data with a recording hub; structure invariants and the announced messages are compared with a model after every step.',
         'message table from DESIGN C17'),
 'C18': (MC, 'explicit-state BFS over collection/viewer histories on real viewers (canvas stubbed) vs layer model',
         'All histories of collection, viewer and picker operations up to the depth bound are run on real viewers; layer/picker invariants are checked in every reached state.',
         'matplotlib canvas draw stubbed'),
 'C19': (EX, 'bounded-exhaustive enumeration of tables/images x selections x formats, real exporters and factories',
         'Every table/image in the grammar is exported with every registered exporter that has a reader and loaded back with the matching factory; components, order and values are compared.',
         'scratch files under /dev/shm'),
 'C20': (EX, 'bounded-exhaustive enumeration of helper inputs (shapes, chunk limits, slice pairs, stride patterns, categorical arrays)',
         'Complete Cartesian products of small shapes with every chunk limit/shape, every pair of positive-step slices for every length to the bound, every zero-stride pattern and every array over a 3-letter alphabet are run through the real helpers and compared with definitions in numpy.',
         'bounds on shape, length and alphabet as reported in the evidence file'),
}

READY = ['C01', 'C02', 'C03', 'C04', 'C05', 'C06', 'C07', 'C08', 'C09', 'C10', 'C11', 'C12', 'C13', 'C14', 'C15', 'C16', 'C17', 'C18', 'C19', 'C20']

NA_REASON = 'check not built yet in this round (planned; see DESIGN.md section 3)'


def main():
    checks, na = [], []
    for pid in sorted(T):
        level, tech, text, note = T[pid]
        if pid in READY and os.path.exists(os.path.join(V, 'checks', pid.lower() + '.py')):
            checks.append(dict(
                property_id=pid,
                quick_cmd='./check %s --tier quick' % pid,
                thorough_cmd='./check %s --tier thorough' % pid,
                evidence_file='evidence/%s.json' % pid,
                replay_cmd_template='./check %s --replay {path}' % pid,
                engine='mc',
                level_claimed=dict(category=level, text=text, design_ref='DESIGN.md section 3, ' + pid),
                level_note=note, technique=tech))
        else:
            na.append(dict(property_id=pid, reason=NA_REASON))
    hooks_commits = []
    doc = dict(
        version=1,
        setup_cmd='./check --setup',
        hooks=dict(guard='GLUE_VERIF', enable='no source hooks: checks import /repo directly with GLUE_VERIF=1 and interpose at module-global level from the harness',
                   baseline_off_cmd=BASE['cmd'].replace('--junitxml=<file>', '').strip(),
                   source_commits=hooks_commits, add_only=True),
        engines=[dict(name='mc', path='mc/', serves_properties=[c['property_id'] for c in checks],
                      kind_free_text='hand-written explicit-state / bounded-exhaustive explorer driving the real glue code (Python)')],
        checks=checks,
        not_applicable=na,
        notes='Exit 0 = held on everything explored (KNOWN-FINDING lines for entries of known_findings.json); exit 1 + VIOLATION line otherwise; exit 2 = engine error. GLUE_REPO selects the tree (default /repo).')
    with open(os.path.join(V, 'MANIFEST.json'), 'w') as f:
        json.dump(doc, f, indent=1)
        f.write('\n')
    import jsonschema
    jsonschema.validate(doc, json.load(open('/root/.vp/MANIFEST.schema.json')))
    print('MANIFEST ok: %d checks, %d not yet claimed' % (len(checks), len(na)))


if __name__ == '__main__':
    main()
