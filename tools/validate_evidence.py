#!/opt/veriftools/pyvenv/bin/python
import sys, json, glob, jsonschema
sch = json.load(open('/root/.vp/EVIDENCE.schema.json'))
bad = 0
for p in sorted(glob.glob('/verif/evidence/C*.json')):
    try:
        jsonschema.validate(json.load(open(p)), sch); print('ok ', p)
    except Exception as e:
        bad += 1; print('BAD', p, str(e)[:300])
sys.exit(bad)
