#!/venv/bin/python
"""tools/mkseed.py CNN [suffix] -> creates worktree /tmp/seed-CNN<suffix> and prints the agent prompt"""
import sys, json, subprocess
pid = sys.argv[1]; suf = sys.argv[2] if len(sys.argv) > 2 else ''
wt = '/tmp/seed-%s%s' % (pid, suf); out = '/tmp/seedout-%s%s' % (pid, suf)
subprocess.run(['git', '-C', '/repo', 'worktree', 'add', '-q', '--detach', wt, 'HEAD'], check=True)
for l in open('/verif/properties.jsonl'):
    p = json.loads(l)
    if p['id'] == pid:
        break
text = 'Title: %s\n\nStatement: %s\n\nQuantification: %s' % (p['title'], p['statement'], p['quantifier']['text'])
t = open('/verif/tools/seed_prompt.txt').read().replace('WORKTREE', wt).replace('OUTDIR', out).replace('PROPERTY_TEXT', text)
print(t)
