#!/venv/bin/python
"""Prints a markdown table of /verif/seeded/*/meta.json (for DESIGN.md section 10.7)."""
import json, glob, os
rows = []
for p in sorted(glob.glob('/verif/seeded/*/meta.json')):
    m = json.load(open(p))
    d = os.path.dirname(p)
    what = m.get('summary', '')
    chk = '; '.join('%s %s: %s' % (c, v.get('tier', 'quick'), 'CAUGHT (%d keys)' % v['violations'] if v['exit'] == 1 else 'missed')
                    for c, v in sorted(m.get('checks', {}).items()))
    first = m.get('first_result', '')
    rows.append('| %s | %s | %s | %s | %s | %s |' % (m['id'], m['property'], what, m.get('needs', ''), first, chk))
print('| id | prop | change | needs | first run | now |')
print('|----|------|--------|-------|-----------|-----|')
print('\n'.join(rows))
