#!/bin/sh
# tools/mkround.sh <round-suffix e.g. -3> CNN...   -> worktrees /tmp/seed-CNN<suf> + prompts /tmp/seedprompt-CNN.txt
suf=$1; shift
for c in "$@"; do
  /verif/tools/mkseed.py $c $suf > /tmp/seedprompt-$c.txt
  /venv/bin/python - "$c" <<'PY'
import json, glob, sys
c = sys.argv[1]
prev = []
for p in sorted(glob.glob('/verif/seeded/S-%s-*/meta.json' % c)):
    m = json.load(open(p))
    prev.append('- "%s" (trigger: %s)' % (m.get('summary', ''), m.get('needs', '')))
s = open('/tmp/seedprompt-%s.txt' % c).read()
s += "\n\nIMPORTANT: other people already produced these changes for the same property:\n%s\nYours must be DIFFERENT from all of them: a different function/mechanism (preferably a different source file) and a different clause or trigger of the property. Also do not simply revert a recent 'fix:' commit of the repository history (git log shows them).\n" % '\n'.join(prev)
if c == 'C18':
    s += "\nExtra hint for this property only: viewers can be created headless with glue.core.application_base.Application().new_data_viewer(cls) using glue.viewers.scatter.viewer.SimpleScatterViewer, glue.viewers.histogram.viewer.SimpleHistogramViewer, glue.viewers.image.viewer.SimpleImageViewer, glue.viewers.profile.viewer.SimpleProfileViewer or the base class glue.viewers.common.viewer.Viewer (set MPLBACKEND=Agg).\n"
open('/tmp/seedprompt-%s.txt' % c, 'w').write(s)
PY
done
ls /tmp | grep "seed-"
