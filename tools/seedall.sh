#!/bin/sh
# re-runs every seeded change against the current checks (no baseline), three at a time; one line per seed
cd /verif
ls seeded | xargs -P ${SEEDALL_JOBS:-3} -I{} sh -c 'prop=$(/venv/bin/python -c "import json;print(json.load(open(\"seeded/{}/meta.json\"))[\"property\"])"); tools/seedcheck.py {} $prop /verif/seeded/{} --no-baseline 2>&1 | grep "^check\|PATCH DOES NOT" | sed "s/^/{}  /" | cut -c1-170'
