#!/bin/sh
# re-runs every seeded change against the current checks (no baseline); prints one line per seed
cd /verif
for d in seeded/*/; do
  id=$(basename $d); prop=$(/venv/bin/python -c "import json;print(json.load(open('$d/meta.json'))['property'])")
  tools/seedcheck.py $id $prop /verif/seeded/$id --no-baseline "$@" 2>&1 | grep "^check" | sed "s/^/$id  /" | cut -c1-170
done
