#!/venv/bin/python
"""Run the repository's pinned suite on a tree (default /repo) and compare with BASELINE.stable_pass.
usage: tools/baseline.py [TREE] [-n JOBS]      exit 0 iff every stable_pass test passed."""
import sys, os, json, subprocess, tempfile
import xml.etree.ElementTree as ET
tree = '/repo'
jobs = '8'
args = sys.argv[1:]
while args:
    a = args.pop(0)
    if a == '-n':
        jobs = args.pop(0)
    else:
        tree = a
base = json.load(open('/root/.vp/BASELINE.json'))
want = set(base['stable_pass'])
fd, xml = tempfile.mkstemp(suffix='.xml', dir='/dev/shm'); os.close(fd)
cmd = ['/venv/bin/python', '-m', 'pytest', '-q', '-p', 'no:cacheprovider', '--timeout=900',
       '--continue-on-collection-errors', '--junitxml=' + xml]
if jobs != '0':
    cmd += ['-n', jobs]
env = dict(os.environ); env.pop('GLUE_VERIF', None)
p = subprocess.run(cmd, cwd=tree, env=env, stdout=subprocess.PIPE, stderr=subprocess.STDOUT, text=True)
passed = set()
for tc in ET.parse(xml).getroot().iter('testcase'):
    if not any(ch.tag in ('failure', 'error', 'skipped') for ch in tc):
        passed.add('%s::%s' % (tc.get('classname'), tc.get('name')))
os.remove(xml)
missing = sorted(want - passed)
if missing and jobs != '0' and len(missing) <= 20:
    # tests that fail only under xdist scheduling are re-run serially before being reported
    ids = []
    for m in missing:
        cls, name = m.split('::', 1)
        parts = cls.split('.')
        # module path is the longest prefix that is a file
        for k in range(len(parts), 0, -1):
            f = os.path.join(tree, *parts[:k]) + '.py'
            if os.path.exists(f):
                ids.append('::'.join([os.path.join(*parts[:k]) + '.py'] + parts[k:] + [name]))
                break
    fd, xml2 = tempfile.mkstemp(suffix='.xml', dir='/dev/shm'); os.close(fd)
    subprocess.run(['/venv/bin/python', '-m', 'pytest', '-q', '-p', 'no:cacheprovider', '--junitxml=' + xml2] + ids,
                   cwd=tree, env=env, stdout=subprocess.PIPE, stderr=subprocess.STDOUT, text=True)
    for tc in ET.parse(xml2).getroot().iter('testcase'):
        if not any(ch.tag in ('failure', 'error', 'skipped') for ch in tc):
            passed.add('%s::%s' % (tc.get('classname'), tc.get('name')))
    os.remove(xml2)
    print('re-ran serially: %s' % ', '.join(ids))
    missing = sorted(want - passed)
print(p.stdout.strip().splitlines()[-1])
print('stable_pass=%d passed_of_those=%d missing=%d' % (len(want), len(want & passed), len(missing)))
for m in missing[:30]:
    print('  MISSING', m)
sys.exit(1 if missing else 0)
