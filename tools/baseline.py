#!/venv/bin/python
"""Run the repository's pinned suite on a tree (default /repo) and compare with BASELINE.stable_pass.
usage: tools/baseline.py [TREE] [-n JOBS]      exit 0 iff every stable_pass test passed."""
import sys, os, json, subprocess, tempfile
import xml.etree.ElementTree as ET
tree = '/repo'
jobs = '8'
args = sys.argv[1:]
while args:
    a = args.pop(0)
    if a == '-n':
        jobs = args.pop(0)
    else:
        tree = a
base = json.load(open('/root/.vp/BASELINE.json'))
want = set(base['stable_pass'])
fd, xml = tempfile.mkstemp(suffix='.xml', dir='/dev/shm'); os.close(fd)
cmd = ['/venv/bin/python', '-m', 'pytest', '-q', '-p', 'no:cacheprovider', '--timeout=900',
       '--continue-on-collection-errors', '--junitxml=' + xml]
if jobs != '0':
    cmd += ['-n', jobs]
env = dict(os.environ); env.pop('GLUE_VERIF', None)
p = subprocess.run(cmd, cwd=tree, env=env, stdout=subprocess.PIPE, stderr=subprocess.STDOUT, text=True)
passed = set()
for tc in ET.parse(xml).getroot().iter('testcase'):
    if not any(ch.tag in ('failure', 'error', 'skipped') for ch in tc):
        passed.add('%s::%s' % (tc.get('classname'), tc.get('name')))
os.remove(xml)
missing = sorted(want - passed)
print(p.stdout.strip().splitlines()[-1])
print('stable_pass=%d passed_of_those=%d missing=%d' % (len(want), len(want & passed), len(missing)))
for m in missing[:30]:
    print('  MISSING', m)
sys.exit(1 if missing else 0)
